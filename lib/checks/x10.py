"""X10 - the management commands (maddy creds / imap-acct / imap-mboxes / imap-msgs) keep credentials,
accounts, mailboxes and messages consistent for every sequence of commands.

(T) TLC checks AcctMgmt.tla exhaustively (every command, spelling, confirmation answer and argument
    inside the bounds, several directed bounds) against the predicates of AcctMgmtObs.tla and
    confirms that each named deviation (Devs) alone is found by the same invariant.
(B) TLC-generated behaviours (exhaustive directed families, sampled in the quick tier, + seeded
    simulation) are executed by the real command-line entry point (maddycli.Run in a child process,
    real configuration file, auth.pass_table over table.sql_table and storage.imapsql on sqlite3).
    After every command the state is read back through the module APIs; the recorded traces are
    validated against AcctMgmtTrace.tla; the predicates are evaluated by TLC on what the real
    commands did (logged snapshot before / after).
"""
import json
import os
import shutil
import subprocess
import time
from concurrent.futures import ThreadPoolExecutor

import vlib

PID = "X10"
ALL_DEVS = ["ExitZero", "PasswordCreates", "AcctNoPrecis", "RenameMissingOk", "RenameLike", "CopyRemoveBlob"]

IMAP_KINDS = ["AcctCreate", "AcctRemove", "MboxCreate", "MboxRemove", "MboxRename", "MsgAdd", "MsgRemove", "MsgCopy",
              "MsgMove", "MsgFlags", "MboxList", "MsgList"]
# predicates a deviation can make false in the step that needed it ...
STEP_PREDS = {
    "ExitZero": {"ExitStatus"},
    "PasswordCreates": {"Result:CredsPassword", "Creds:CredsPassword"},
    "AcctNoPrecis": {"CreatedAccountUnreachable", "AcctNameNotCanonical", "OtherMessagesTouched", "NewAccountNotEmpty"} |
                    {"%s:%s" % (p, k) for p in ("Result", "Accts", "Mboxes", "Msgs", "Listing") for k in IMAP_KINDS},
    "RenameMissingOk": {"Result:MboxRename", "Mboxes:MboxRename", "Msgs:MboxRename"},
    "RenameLike": {"Result:MboxRename", "Mboxes:MboxRename", "Msgs:MboxRename"},
    "CopyRemoveBlob": {"Msgs:MsgRemove", "OtherMessagesTouched", "BodyLost"},
}
# ... and the state predicates that stay false afterwards
STATE_PREDS = {
    "AcctNoPrecis": {"AcctNameNotCanonical"},
    "CopyRemoveBlob": {"BodyLost"},
}
# a deviation of the environment kind (depends on the wall clock, not on the command sequence): go-imap-sql seeds
# the generator of UIDVALIDITY values with the current second, so commands run within one second draw the same
# values.  Not modelled as a switch of the design; matched by its two predicates (UidReused only in a trace in which
# a mailbox was really created with a UIDVALIDITY value seen before: UvRecycled or the diagnostic UvCollision).
ENV_DEV = "UvSeedSecond"
# a second finding that is matched by history instead of a switch of the model (it depends on which of two equally
# named mailboxes of different accounts was created first, which a snapshot does not show): removing a mailbox whose
# name also exists in another account leaves the bodies of its messages in the message store (BlobCount).
LEAK_DEV = "MboxRemoveLeak"


def leak_steps(evs):
    """seq numbers of the successful `imap-mboxes remove` commands whose mailbox name another account has too"""
    out, prev = set(), None
    for e in evs:
        if e["e"] == "Cfg":
            prev = e["snap"]
        if e["e"] != "Cmd":
            continue
        c = e["c"]
        if c["k"] == "MboxRemove" and e["res"] == "ok" and prev is not None:
            gone = [m for m in prev["mboxes"] if m["name"] == c["mb"] and
                    not any(n["acct"] == m["acct"] and n["name"] == m["name"] for n in e["snap"]["mboxes"])]
            for m in gone:
                if any(o["name"] == m["name"] and o["acct"] != m["acct"] for o in prev["mboxes"]):
                    out.add(e["seq"])
        prev = e["snap"]
    return out

CFG = """SPECIFICATION %(spec)s
CONSTANTS
  Kinds = {%(kinds)s}
  Spell = {%(spell)s}
  Pws = {%(pws)s}
  Confirms = {%(confirms)s}
  SUs = {%(sus)s}
  MNames = {%(mnames)s}
  Specials = {%(specials)s}
  FlagSets = {%(flagsets)s}
  AddFlags = {%(addflags)s}
  Ranges = {%(ranges)s}
  UidModes = {%(uidmodes)s}
  Preset = "%(preset)s"
  MaxSteps = %(maxsteps)d
  Devs = {%(devs)s}
  Gen = %(gen)s
%(tail)s
"""
MC_TAIL = "VIEW View\nINVARIANTS NoViolation TypeOK\n"
ASIS_TAIL = "VIEW View\nINVARIANTS NoViolation\n"
GEN_TAIL = "CHECK_DEADLOCK FALSE\n"
TRACE_TAIL = "CHECK_DEADLOCK FALSE\nPOSTCONDITION Post\n"

CREDS = ["CredsCreate", "CredsPassword", "CredsRemove"]
ACCT = ["AcctCreate", "AcctRemove"]
MBOX = ["MboxCreate", "MboxRemove", "MboxRename"]
MSGS = ["MsgAdd", "MsgRemove", "MsgCopy", "MsgMove", "MsgFlags"]


def q(xs):
    return ", ".join('"%s"' % x for x in xs)


def b(xs):
    return ", ".join("TRUE" if x else "FALSE" for x in xs)


def sets(xss):
    return ", ".join("{%s}" % q(xs) for xs in xss)


def cfg(kinds, spell=("a",), pws=("p1",), confirms=("flag",), sus=(False,), mnames=("INBOX",), specials=("none",),
        flagsets=(("S",),), addflags=((),), ranges=("1",), uidmodes=(True,), preset="empty", maxsteps=2, devs=(),
        gen=False, tail=MC_TAIL, spec="Spec"):
    return CFG % dict(spec=spec, kinds=q(kinds), spell=q(spell), pws=q(pws), confirms=q(confirms), sus=b(sus),
                      mnames=q(mnames), specials=q(specials), flagsets=sets(flagsets), addflags=sets(addflags),
                      ranges=q(ranges), uidmodes=b(uidmodes), preset=preset, maxsteps=maxsteps, devs=q(devs),
                      gen="TRUE" if gen else "FALSE", tail=tail)


ALL_SPELL = ["a", "aC", "aW", "b", "bC", "x", ""]
ALL_RANGES = ["1", "2", "3", "1:2", "2:3", "*", "1:*", "2:*"]

# ---- exhaustive model checking of the design (Devs = {}) --------------------------------------------
MC_QUICK = {
    "mc-creds": dict(kinds=CREDS, spell=ALL_SPELL, pws=["p1", "p2"], confirms=["flag", "y", "n"], maxsteps=4),
    "mc-acct": dict(kinds=ACCT + MBOX + ["Deliver"], spell=["a", "aC", "aW", "b"], confirms=["flag", "n"], sus=[False, True],
                    mnames=["INBOX", "A", "A.B", "Junk"], specials=["none", "Junk"], maxsteps=3),
    "mc-tree": dict(kinds=MBOX + ["AcctRemove", "AcctCreate"], spell=["a"], confirms=["flag", "n"],
                    mnames=["INBOX", "A", "A.B", "a.B", "C", "C.B", ""], preset="treemsgs", maxsteps=2),
    "mc-msgs": dict(kinds=MSGS, spell=["a", "aW"], confirms=["flag", "n"], mnames=["INBOX", "A"],
                    flagsets=[["S"], ["F", "K"]], addflags=[[], ["S"]], ranges=["1", "2", "1:2", "*", "2:*", "3"],
                    uidmodes=[True, False], preset="msgs3", maxsteps=2),
}
MC_THOROUGH = {
    "mc-creds": dict(kinds=CREDS, spell=ALL_SPELL, pws=["p1", "p2"], confirms=["flag", "y", "n"], maxsteps=7),
    "mc-acct": dict(kinds=ACCT + MBOX + ["Deliver"], spell=["a", "aC", "aW", "b", "x", ""], confirms=["flag", "y", "n"],
                    sus=[False, True], mnames=["INBOX", "A", "A.B", "Junk", ""], specials=["none", "Junk"], maxsteps=4),
    "mc-tree": dict(kinds=MBOX + ["AcctRemove", "AcctCreate"], spell=["a", "aC"], confirms=["flag", "n"],
                    mnames=["INBOX", "A", "A.B", "a.B", "C", "C.B", "A.B.C", "B", ""], preset="treemsgs", maxsteps=3),
    "mc-msgs": dict(kinds=MSGS, spell=["a", "aW"], confirms=["flag", "y", "n"], mnames=["INBOX", "A", ""],
                    flagsets=[["S"], ["F", "K"]], addflags=[[], ["S"]], ranges=ALL_RANGES,
                    uidmodes=[True, False], preset="msgs3", maxsteps=2),
    "mc-msgs3": dict(kinds=["MsgAdd", "MsgRemove", "MsgCopy", "MsgMove", "MboxRemove", "MboxRename", "AcctRemove", "AcctCreate"],
                     spell=["a"], confirms=["flag"], mnames=["INBOX", "A", "B"], addflags=[["F"]],
                     ranges=["1", "1:*", "2"], uidmodes=[True, False], preset="msgs", maxsteps=4),
    "mc-all": dict(kinds=CREDS + ACCT + MBOX + MSGS, spell=["a", "aC"], pws=["p1", "p2"], confirms=["flag", "n"],
                   mnames=["INBOX", "A"], ranges=["1", "1:*"], uidmodes=[True], preset="empty", maxsteps=6),
}

# ---- as-is models: every deviation alone must be found by NoViolation ------------------------------
ASIS = {
    "ExitZero": dict(kinds=CREDS, spell=["a"], maxsteps=2),
    "PasswordCreates": dict(kinds=CREDS, spell=["a"], pws=["p1", "p2"], maxsteps=2),
    "AcctNoPrecis": dict(kinds=ACCT, spell=["a", "aW"], maxsteps=2),
    "RenameMissingOk": dict(kinds=MBOX, spell=["a"], mnames=["A", "C.B"], preset="acct", maxsteps=1),
    "RenameLike": dict(kinds=["MboxRename"], spell=["a"], mnames=["A", "C"], preset="tree", maxsteps=1),
    "CopyRemoveBlob": dict(kinds=["MsgCopy", "MsgRemove"], spell=["a"], mnames=["INBOX", "A"], preset="msgs", maxsteps=2),
}

# ---- directed families of behaviours (exhaustive, Gen = TRUE) ---------------------------------------
FAMILIES = {
    "creds": dict(kinds=CREDS, spell=ALL_SPELL, pws=["p1", "p2"], confirms=["flag", "y", "n"], maxsteps=2),
    "creds3": dict(kinds=CREDS, spell=["a", "aW"], pws=["p1", "p2"], confirms=["flag", "n"], maxsteps=3),
    "acct": dict(kinds=ACCT + ["MboxCreate"], spell=["a", "aC", "aW", "x", ""], confirms=["flag", "y", "n"],
                 sus=[False, True], mnames=["A.B"], maxsteps=2),
    "acct3": dict(kinds=ACCT + ["MsgAdd", "Deliver"], spell=["a", "aC"], confirms=["flag", "n"], sus=[False, True],
                  mnames=["INBOX", "Junk"], addflags=[["S"]], maxsteps=3),
    "deliver": dict(kinds=ACCT + ["Deliver"], spell=["a", "aC", "aW", "b", "x"], confirms=["flag"], maxsteps=3),
    "special": dict(kinds=["MboxCreate", "MboxRename", "MboxRemove"], spell=["a"], confirms=["flag"],
                    mnames=["Junk", "Trash", "A", "A.B"], specials=["none", "Junk", "Trash"], preset="acctsu",
                    maxsteps=2),
    "mbox": dict(kinds=MBOX, spell=["a"], confirms=["flag", "n"], mnames=["INBOX", "A", "A.B", "a.B", "C", "C.B", ""],
                 specials=["none", "Junk"], preset="treemsgs", maxsteps=2),
    "msgs": dict(kinds=MSGS, spell=["a"], confirms=["flag", "y", "n"], mnames=["INBOX", "A", ""],
                 flagsets=[["S"], ["F", "K"]], addflags=[[], ["S", "F"]], ranges=ALL_RANGES, uidmodes=[True, False],
                 preset="msgs3", maxsteps=1),
    "msgs2": dict(kinds=["MsgAdd", "MsgRemove", "MsgCopy", "MsgMove"], spell=["a"], confirms=["flag"],
                  mnames=["INBOX", "A"], addflags=[["F"]], ranges=["1", "1:*", "2"], uidmodes=[True, False],
                  preset="msgs", maxsteps=2),
    "flags2": dict(kinds=["MsgFlags"], spell=["a"], mnames=["INBOX"], flagsets=[["S"], ["F", "K"], ["S", "F"]],
                   ranges=["1", "1:*", "2"], uidmodes=[True], preset="msgs", maxsteps=2),
    "two": dict(kinds=["MboxRemove", "MboxRename", "AcctRemove", "MsgRemove", "MsgCopy", "MsgMove", "Deliver"], spell=["a", "b", "bC"],
                confirms=["flag"], mnames=["INBOX", "A", "C"], ranges=["1", "1:*"], uidmodes=[True], preset="two",
                maxsteps=2),
    "life": dict(kinds=["AcctRemove", "AcctCreate", "MboxRemove", "MboxCreate", "MboxRename", "MsgAdd"], spell=["a"],
                 confirms=["flag"], mnames=["INBOX", "A", "B"], addflags=[[]], preset="msgs", maxsteps=3),
}
QUICK_PER_FAMILY = 12
THOROUGH_FAMILY_CAP = 500
QUICK_SIM = 30
THOROUGH_SIM = 700

SIMS = {
    "sim-empty": dict(kinds=CREDS + ACCT + MBOX + MSGS + ["Deliver"], spell=["a", "aC", "aW", "b"], pws=["p1", "p2"],
                      confirms=["flag", "y", "n"], sus=[False, True], mnames=["INBOX", "A", "A.B", "a.B", "Junk"],
                      specials=["none", "Junk"], flagsets=[["S"], ["F", "K"]], addflags=[[], ["S"]],
                      ranges=["1", "2", "1:2", "*", "2:*"], uidmodes=[True, False], preset="empty", maxsteps=12),
    "sim-msgs": dict(kinds=MBOX + MSGS + ["AcctRemove", "AcctCreate", "Deliver"], spell=["a", "aC"], confirms=["flag", "n"],
                     mnames=["INBOX", "A", "A.B", "a.B", "C"], flagsets=[["S"], ["F", "K"]],
                     addflags=[[], ["F"]], ranges=["1", "2", "1:2", "*", "1:*", "3"], uidmodes=[True, False],
                     preset="treemsgs", maxsteps=9),
}

TRACE = dict(kinds=["CredsCreate"], spell=["a"], pws=["p1", "p2"], maxsteps=0)


def load_findings():
    p = os.path.join(vlib.VERIF, "extensions", "findings.json")
    if not os.path.exists(p):
        return []
    return [f for f in json.load(open(p)).get("findings", []) if f.get("ext") == PID]


def open_devs():
    """deviation -> finding for the open findings; X10_CLOSED=dev1,dev2 (fix verification only) treats the named
    deviations as closed for this run"""
    closed = set(x for x in os.environ.get("X10_CLOSED", "").split(",") if x)
    out = {}
    for f in load_findings():
        d = f.get("match", {}).get("deviation")
        if f.get("status", "open") == "open" and d and d not in closed:
            out[d] = f
    return out


def build(ctx):
    """go test -c with a private -modfile: the shared harness/go.mod is never rewritten by this check"""
    out = os.path.join(ctx.work, "acctmgmtcheck.test")
    mf = os.path.join(ctx.work, "go.mod")
    txt = open(os.path.join(vlib.HARNESS, "go.mod")).read().replace("=> /repo", "=> " + ctx.repo)
    if os.environ.get("X10_GOIMAPSQL"):      # fix verification: a patched copy of the dependency
        txt += "\nreplace github.com/foxcpp/go-imap-sql => %s\n" % os.environ["X10_GOIMAPSQL"]
    open(mf, "w").write(txt)
    shutil.copy(os.path.join(ctx.repo, "go.sum"), os.path.join(ctx.work, "go.sum"))
    cmd = ["go1.26", "test", "-c", "-tags", "verif", "-modfile", mf, "-o", out, "./acctmgmtcheck"]
    t0 = time.time()
    p = subprocess.run(cmd, cwd=vlib.HARNESS, env=vlib.goenv(), stdout=subprocess.PIPE, stderr=subprocess.STDOUT,
                       text=True)
    if p.returncode != 0 or not os.path.exists(out):
        raise vlib.Infra("harness build failed (acctmgmtcheck):\n%s" % p.stdout[-4000:])
    ctx.log("built harness acctmgmtcheck in %.1fs" % (time.time() - t0))
    return out


def behaviours_from(r):
    return [{"preset": val["preset"], "hist": val["hist"]} for tag, val in r["printed"] if tag == "BEH"]


def nontrivial(bh):
    ks = set(c["k"] for c in bh["hist"])
    return len(ks) >= 2 or any(c["sp"] not in ("a", "b") for c in bh["hist"])


def classify(recs, odevs, evs=()):
    """-> ("ok"|"drift"|"finding"|"violation", violated predicate names, [(finding id, deviation)])"""
    viol = sorted(set(v["p"] for r in recs for v in r["viol"]))
    conform = [r for r in recs if not r["drift"]]
    if not viol:
        return ("ok" if conform else "drift"), viol, []
    if conform:
        r = conform[0]
        used = set(r["used"])
        fids = set()
        names = set(v["p"] for v in r["viol"])
        blobq = [v["q"] for v in r["viol"] if v["p"] == "BlobCount"]
        leak_ok = LEAK_DEV in odevs and blobq and min(blobq) in leak_steps(evs)
        for v in r["viol"]:
            exp = [d for d in v["d"] if d in odevs and v["p"] in STEP_PREDS.get(d, ())]
            exp += [d for d in used if d in odevs and v["p"] in STATE_PREDS.get(d, ())]
            if ENV_DEV in odevs and (v["p"] == "UvRecycled" or (
                    v["p"] == "UidReused" and ("UvRecycled" in names or "UvCollision" in r.get("diag", [])))):
                exp.append(ENV_DEV)
            if v["p"] == "BlobCount" and leak_ok:
                exp.append(LEAK_DEV)
            if not exp:
                return "violation", viol, []
            fids |= set((odevs[d]["id"], d) for d in exp)
        return "finding", viol, sorted(fids)
    return "violation", viol, []


def run(ctx, replay):
    try:
        _run(ctx, replay)
    except vlib.Infra:
        raise
    except Exception as e:      # nothing that goes wrong inside the driver is a statement about maddy
        import traceback
        raise vlib.Infra("driver error: %s\n%s" % (e, traceback.format_exc()[-1500:]))


def _run(ctx, replay):
    thorough = ctx.tier == "thorough"
    odevs = open_devs()
    devs_open = [d for d in ALL_DEVS if d in odevs]   # ENV_DEV is not a switch of the model
    binary = build(ctx)

    # ---- (T) exhaustive model checking of the design ------------------------------------
    if not replay:
        runs = MC_THOROUGH if thorough else MC_QUICK
        names = sorted(runs)
        with ThreadPoolExecutor(max_workers=3) as ex:
            res = list(ex.map(lambda n: ctx.tlc("AcctMgmt", None, name=n, workers=6 if thorough else 4,
                                                timeout=3000 if thorough else 900, cfg_text=cfg(**runs[n]),
                                                heap="8g" if thorough else None), names))
        st = tr = dp = 0
        for n, r in zip(names, res):
            if not r["ok"]:
                raise vlib.Infra("TLC did not accept AcctMgmt/%s: invariant=%s error=%s (see %s/tlc.out)" % (
                    n, r["invariant"], r["error"], r["dir"]))
            st += r["distinct"]
            tr += r["generated"]
            dp = max(dp, r["depth"])
            ctx.log("TLC exhaustive %s: %d distinct states, %d generated, depth %d, %.1fs" % (
                n, r["distinct"], r["generated"], r["depth"], r["wall"]))
        ctx.cov["states"], ctx.cov["transitions"], ctx.cov["model_depth"] = st, tr, dp
        with ThreadPoolExecutor(max_workers=3) as ex:
            asis = list(ex.map(lambda d: ctx.tlc("AcctMgmt", None, name="asis-" + d, workers=2, timeout=600,
                                                 cfg_text=cfg(devs=[d], tail=ASIS_TAIL, **ASIS[d])), ALL_DEVS))
        for d, ra in zip(ALL_DEVS, asis):
            if ra["invariant"] != "NoViolation":
                raise vlib.Infra("as-is model (%s) does not violate NoViolation: the invariant is vacuous (%s)" % (
                    d, ra["error"]))
        ctx.cov["asis_counterexamples_found"] = list(ALL_DEVS)

    # ---- (B) behaviours out of TLC --------------------------------------------------------
    if replay:
        obj = json.load(open(replay))
        behs = [obj["behaviour"]]
        behs[0]["id"] = 1
    else:
        behs = []
        fam_counts = {}
        names = sorted(FAMILIES)
        snames = sorted(SIMS)
        nsim = THOROUGH_SIM if thorough else QUICK_SIM

        def gen(n):
            if n in FAMILIES:
                return ctx.tlc("AcctMgmt", None, name="gen-" + n, workers=2, timeout=1200,
                               cfg_text=cfg(devs=devs_open, gen=True, tail=GEN_TAIL, **FAMILIES[n]))
            return ctx.tlc("AcctMgmt", None, name=n, workers=1, timeout=2400, simulate=nsim, depth=40,
                           cfg_text=cfg(devs=devs_open, gen=True, tail=GEN_TAIL, spec="SimSpec", **SIMS[n]))
        with ThreadPoolExecutor(max_workers=8) as ex:
            gens = list(ex.map(gen, snames + names))
        for n, g in zip(snames + names, gens):
            if not g["ok"]:
                raise vlib.Infra("behaviour generation (%s) failed: %s %s" % (n, g["invariant"], g["error"]))
            fb = behaviours_from(g)
            if not fb:
                raise vlib.Infra("TLC produced no behaviours for " + n)
            fam_counts[n] = len(fb)
            if n in FAMILIES:
                fb.sort(key=lambda x: json.dumps(x, sort_keys=True))
                fb = vlib.sample(ctx.rng, fb, THOROUGH_FAMILY_CAP if thorough else QUICK_PER_FAMILY)
            for x in fb:
                x["family"] = n
            behs += fb
        ctx.cov["family_behaviours_total"] = fam_counts
        seen, uniq = set(), []
        for x in behs:
            k = json.dumps([x["preset"], x["hist"]], sort_keys=True)
            if k not in seen:
                seen.add(k)
                uniq.append(x)
        behs = uniq
        for i, x in enumerate(behs):
            x["id"] = i + 1
            x["lists"] = i % 2 == 0      # harness-only: run the read-only commands after every step
            x["stdin"] = i % 3 == 1      # harness-only: passwords typed on stdin instead of --password
    ctx.log("%d behaviours to replay (%d commands)" % (len(behs), sum(len(x["hist"]) for x in behs)))

    # ---- replay through the real command-line entry point ------------------------------------
    events = ctx.run_shards(binary, behs, timeout=3000)
    by_id = {x["id"]: x for x in behs}
    full = {}
    for e in events:
        full.setdefault(e["t"], []).append(e)
    keep = {"t", "seq", "e", "preset", "snap", "c", "res", "ez", "panic", "out"}
    for e in events:
        if e["e"] == "Cmd" and e["c"]["k"] == "Deliver":
            e["ez"] = e["res"] == "ok"       # a delivery has no exit status
    slim = []
    for e in events:
        s = {k: v for k, v in e.items() if k in keep}
        if e["e"] == "Cmd":
            s.pop("out", None)
        slim.append(s)
    events = slim

    # binding self-test: a corrupted and a truncated copy of an accepted trace must be rejected
    selftest = {}
    if not replay:
        base = None
        for x in behs:
            evs = [e for e in events if e["t"] == x["id"]]
            if sum(1 for e in evs if e["e"] == "Cmd" and e["res"] == "ok" and e["snap"]["mboxes"]) >= 2:
                base = evs
                break
        if base:
            c1 = json.loads(json.dumps([dict(e, t=900001) for e in base]))
            for e in c1:
                if e["e"] == "Cmd" and e["res"] == "ok" and e["snap"]["mboxes"]:
                    e["snap"]["mboxes"][0]["next"] += 1
                    break
            c2 = [dict(e, t=900002) for e in base]
            k = next(i for i, e in enumerate(c2) if e["e"] == "Cmd" and e["res"] == "ok" and e["snap"]["mboxes"])
            del c2[k]
            events = events + c1 + c2
            selftest = {900001: "corrupt-field", 900002: "drop-event"}

    # trace validation, several TLC runs side by side (each over whole traces)
    ts = sorted(set(e["t"] for e in events))
    nchunk = max(1, min(6, len(ts) // 150))
    part = {t: i % nchunk for i, t in enumerate(ts)}
    chunks = [[e for e in events if part[e["t"]] == k] for k in range(nchunk)]
    tcfg = cfg(devs=devs_open, tail=TRACE_TAIL, spec="TSpec", **TRACE)
    with ThreadPoolExecutor(max_workers=nchunk) as ex:
        outs = list(ex.map(lambda k: ctx.validate("AcctMgmtTrace", None, chunks[k], name="val%d" % k, cfg_text=tcfg,
                                                  batch=300, timeout=2400), range(nchunk)))
    verdicts, by_t = {}, {}
    for v, bt in outs:
        verdicts.update(v)
        by_t.update(bt)

    ok = drift = nfind = 0
    preds = {}
    bad = []
    for t, recs in sorted(verdicts.items()):
        if t in selftest:
            if any(not r["drift"] for r in recs):
                raise vlib.Infra("binding self-test failed: %s trace was accepted" % selftest[t])
            continue
        kind, viol, fids = classify(recs, odevs, full.get(t, ()))
        if kind == "ok":
            ok += 1
        elif kind == "drift":
            drift += 1
            print("DRIFT property=%s trace=%d first-unexplained-seq=%s" % (PID, t, recs[0]["driftAt"]))
        elif kind == "finding":
            nfind += 1
            ok += 1
            for fid, d in fids:
                what = odevs[d].get("what", d)
                if (fid, what) not in ctx.known_seen:
                    ctx.known_seen.append((fid, what))
                    print("EXT-FINDING: ext=%s %s %s" % (PID, fid, what))
        else:
            for v in viol:
                preds[v] = preds.get(v, 0) + 1
            bad.append((t, viol, recs))
    known_preds = set()
    for d in odevs:
        known_preds |= STEP_PREDS.get(d, set()) | STATE_PREDS.get(d, set())
    bad.sort(key=lambda x: (-len(set(x[1]) - known_preds), len(by_id[x[0]]["hist"]), x[0]))
    for t, viol, recs in bad:
        what = "management commands violate " + ",".join(viol)
        ctx.violation(what, {"property": PID, "behaviour": by_id[t], "trace": full.get(t, by_t[t]),
                             "violated": viol, "verdict": recs, "how": "bin/check X10 --replay <this file>"})
    if selftest:
        ctx.cov["binding_selftest"] = "corrupted-field and dropped-event traces rejected"
    ctx.cov["traces_validated_against_impl"] = ok
    ctx.cov["commands_executed"] = sum(1 for e in events if e["e"] in ("Cmd", "List") and e["t"] < 900000)
    ctx.cov["traces_showing_open_findings"] = nfind
    ctx.cov["drift_traces"] = drift
    ctx.cov["evaluations"] = len(behs)
    ctx.cov["distinct_nontrivial"] = sum(1 for x in behs if nontrivial(x))
    ctx.cov["rule"] = ("behaviours = complete behaviours of AcctMgmt.tla printed by TLC: exhaustive directed families "
                       "(sampled by VERIF_SEED in quick, up to %d each in thorough) + -simulate (kind drawn first, "
                       "succeeding commands preferred 3:1), de-duplicated; non-trivial = two or more command kinds or "
                       "a spelling other than the canonical one" % THOROUGH_FAMILY_CAP)
    ctx.cov["violated_predicates"] = preds
    for x in behs[:3]:
        ctx.cov["samples"].append({"behaviour": x, "trace": [
            {k: v for k, v in e.items() if k not in ("snap",)} for e in full.get(x["id"], [])[:8]]})
    ctx.cov["exhaustive"] = False
    ctx.assumptions += [
        "auth.pass_table over table.sql_table and storage.imapsql, both on sqlite3 (cgo), file-system message store; "
        "PostgreSQL is not exercised",
        "one command at a time, no IMAP session or delivery running concurrently",
        "every command runs maddycli.Run (what cmd/maddy/main.go calls) in a child process of the test binary, with a "
        "real configuration file; the confirmation prompt and passwords are answered through a pipe (no terminal)",
        "sequence-number sets partly outside the mailbox and copy/move onto the source mailbox are not issued "
        "(RFC 3501 and the code disagree / the statement is silent)",
        "UIDVALIDITY values are compared by order of first appearance (the storage draws them at random)",
        "TLC 1.8.0, CommunityModules Json reader",
    ]
    ctx.cov["ext_findings_seen"] = [k for k, _ in ctx.known_seen]
    ctx.known_seen = []


META = {
    "engine": "acctmgmtcheck",
    "level": "model_checking",
    "technique": "TLA+ spec AcctMgmt.tla model-checked by TLC; TLC-generated command sequences executed by the real "
                 "command-line entry point (maddycli.Run, real configuration file, sqlite databases); state read "
                 "back through auth.pass_table / storage.imapsql after every command; recorded traces validated "
                 "against AcctMgmtTrace.tla (predicates in AcctMgmtObs.tla)",
    "statement": "For every sequence of management commands - maddy creds create / password / remove, imap-acct "
                 "create / remove, imap-mboxes create / remove / rename, imap-msgs add / remove / copy / move / "
                 "add-flags / rem-flags / set-flags and the list commands - over account names given in any spelling "
                 "(letter case, Unicode width variant, a name PRECIS refuses, name missing), any answer to the "
                 "confirmation prompt (--yes, y, n), mailbox names including INBOX, nested names, names differing "
                 "only in letter case and special-use mailboxes, message sets by sequence number or UID: (1) account "
                 "names are case-insensitive and normalised with PRECIS UsernameCaseMapped, the same way on the "
                 "command line as on the server's log-in and delivery paths: what `creds create NAME` stored "
                 "authenticates under every spelling of NAME with exactly the password set last, what `imap-acct "
                 "create NAME` created is the account the server delivers to for every spelling of NAME; (2) create "
                 "of an existing name (credentials, account, mailbox), remove/rename/password of a missing one, "
                 "removing INBOX and any command naming a missing account or mailbox fail; (3) a command that fails, "
                 "or whose confirmation is answered with anything but yes, changes nothing and a failing command "
                 "exits with a non-zero status, a succeeding one with zero; (4) a succeeding command changes exactly "
                 "what it names: removing an account removes its mailboxes and messages and a re-created account "
                 "starts with only the default mailboxes, new UIDVALIDITY and no messages; rename moves the mailbox, "
                 "its inferiors and all their messages with UIDs, flags and UIDVALIDITY unchanged (INBOX: its "
                 "messages move, a new empty INBOX remains), creates missing superiors and touches no other mailbox; "
                 "add/copy/move assign the next UIDs of the target in order, copies keep body and flags; remove, "
                 "move and the flag commands affect exactly the addressed messages; every stored message keeps a "
                 "readable body, the message store holds exactly the bodies stored messages refer to (from the "
                 "code), (mailbox, UIDVALIDITY, UID) never names two different messages and a mailbox created anew "
                 "never gets a UIDVALIDITY its name had before; a message the server delivers for any spelling of "
                 "NAME lands in INBOX of the account `imap-acct create NAME` made; (5) the list commands print "
                 "exactly the stored names / UIDs; (6) no command panics.",
    "text": "TLC visits every behaviour of AcctMgmt.tla inside four (quick) / six (thorough) directed bounds and checks "
            "the X10 predicates in every state; the same predicates are evaluated by TLC over traces recorded from "
            "the real commands driven with TLC-generated behaviours (12 exhaustive directed families, sampled in "
            "quick, plus seeded simulation).",
    "note": "sqlite3 only; one command at a time; trusted: TLC, the harness (state is read back through the modules' "
            "own APIs), Go toolchain.",
    "design_ref": "extensions/X10.md",
}
