"""C11 - rate/concurrency limits are enforced, every permit is returned, limit
operations never crash.

(T) TLC checks Limits.tla exhaustively: every interleaving of the channel operations /
    critical sections of 2-3 concurrent deliveries over the four scopes, N in {1,2},
    1-3 keys per scope, key populations up to MaxBuckets+2, time-outs, roll-backs.
    Each named deviation of the code (Devs) must produce a counterexample.
(B) TLC-generated histories (scripts of TakeMsg/TakeDest/ReleaseDest/ReleaseMsg calls by
    concurrent callers, ticks of logical time, minutes, bulk fills of the bucket table)
    are executed on the real limits.Group built from configuration nodes inside a
    testing/synctest bubble (harness/limitscheck); the recorded traces are validated
    against LimitsTrace.tla; the property predicates (LimitsObs.tla) are evaluated by TLC
    after every recorded event.
"""
import concurrent.futures as cf
import json
import os

import vlib

REAL_MB = 20010
KEEP = {"Cfg", "Call", "Ret", "Tick", "Minute", "Fill", "MailReject", "RcptReject", "MoreRcpt", "Snap", "Quiesced", "Yield",
        "Resume", "NestedMail"}

CFG = """SPECIFICATION %(spec)s
CONSTANTS
  Msgs = {%(msgs)s}
  Probers = {%(probers)s}
  IPs = {%(ips)s}
  Srcs = {%(srcs)s}
  Dsts = {%(dsts)s}
  NAll = {%(nall)s}
  NIp = {%(nip)s}
  NSrc = {%(nsrc)s}
  NDst = {%(ndst)s}
  MBSet = {%(mb)s}
  MaxOps = %(maxops)d
  FillOK = %(fill)s
  Devs = {%(devs)s}
  Eager = %(eager)s
  Endp = %(endp)s
  Remote = %(remote)s
  Gen = %(gen)s
  ParkOK = %(park)s
%(tail)s
"""

INVS = "NoViolation SnapOK SemBound HoldBound NoCrash NoMismatchedRelease QuiescentFree TypeOK"
MC_TAIL = "VIEW View\nSYMMETRY Sym\nINVARIANTS " + INVS + "\n"
ASIS_TAIL = "VIEW View\nINVARIANTS " + INVS + "\n"
GEN_TAIL = "CHECK_DEADLOCK FALSE\nCONSTRAINT Emit\n"
TRACE_TAIL = "CHECK_DEADLOCK FALSE\nPOSTCONDITION Post\n"


def _names(prefix, n, quote):
    q = '"%s"' if quote else "%s"
    return ", ".join(q % (prefix + str(i)) for i in range(1, n + 1))


def cfg(msgs=2, ips=2, srcs=2, dsts=1, nall="0,1", nip="0,1", nsrc="0,1", ndst="0,1", mb="1",
        maxops=1, fill=False, devs=(), eager=False, gen=False, tail=MC_TAIL, strings=False,
        probers=0, spec="Spec", remote=False, endp=False, rawkey=False, special=False, park=False):
    """special: the key populations also contain the source key "null" (MAIL FROM:<>, limited under the empty
    domain) and the ip key "lo" (no TCP peer address: limited under 127.0.0.1)"""
    m = _names("m", msgs, strings)
    p = _names("q", probers, strings)
    if probers:
        m = m + ", " + p
    return CFG % dict(spec=spec, msgs=m, probers=p, ips=_names("i", ips, strings) + (', "lo"' if special else ""),
                      srcs=_names("s", srcs, strings) + (', "raw"' if rawkey else "") + (', "null"' if special else ""),
                      dsts=_names("d", dsts, strings),
                      nall=nall, nip=nip, nsrc=nsrc, ndst=ndst, mb=mb, maxops=maxops,
                      fill="TRUE" if fill else "FALSE",
                      devs=", ".join('"%s"' % d for d in devs),
                      endp="TRUE" if endp else "FALSE", remote="TRUE" if remote else "FALSE", eager="TRUE" if eager else "FALSE", gen="TRUE" if gen else "FALSE", tail=tail,
                      park="TRUE" if park else "FALSE")


# exhaustive design configurations (deviations off): name -> (cfg text, workers)
def mc_configs(thorough):
    c = {
        # every scope on/off, two deliveries
        "mc-2x-all-scopes": (cfg(msgs=2, ips=2, srcs=2, dsts=1), 3),
        # key population MaxBuckets+2 in one scope, reaping, two deliveries each
        "mc-overflow": (cfg(msgs=2, ips=3, srcs=1, dsts=1, nall="0,1" if thorough else "0", nip="1", nsrc="0",
                            ndst="0", maxops=2), 3),
        # destination scope, three deliveries, N in {1,2}
        "mc-3x-dest": (cfg(msgs=3, ips=1, srcs=1, dsts=2, nall="0,1", nip="0", nsrc="0", ndst="1,2"), 3),
        # remote deliveries as callers (End = Close, next-hop MAIL refusal)
        "mc-remote": (cfg(msgs=2, ips=1, srcs=1, dsts=2, nall="0,1", nip="0", nsrc="0,1", ndst="1,2",
                          remote=True), 2),
        # SMTP sessions as callers (the pipeline may refuse the sender after TakeMsg)
        "mc-endpoint": (cfg(msgs=2, ips=2, srcs=2, dsts=1, nall="0,1", nip="0,1", nsrc="0,1", ndst="0",
                            endp=True), 2),
    }
    if thorough:
        c.update({
            "mc-3x-msg-scopes": (cfg(msgs=3, ips=2, srcs=2, dsts=1, nall="0,1,2", nip="0,1,2", nsrc="0,1,2",
                                     ndst="0"), 5),
            "mc-3x-remote": (cfg(msgs=3, ips=1, srcs=1, dsts=2, nall="0,1", nip="0", nsrc="0,1", ndst="1,2",
                                 remote=True), 5),
            "mc-3x-endpoint": (cfg(msgs=3, ips=2, srcs=2, dsts=1, nall="0,1,2", nip="0,1", nsrc="0,1,2", ndst="0",
                                   endp=True), 5),
            "mc-2x-N012": (cfg(msgs=2, ips=2, srcs=2, dsts=2, nall="0,1,2", nip="0,1,2", nsrc="0,1,2",
                               ndst="0,1,2"), 4),
            "mc-3x-ip2": (cfg(msgs=3, ips=2, srcs=1, dsts=1, nall="0,2", nip="2", nsrc="0", ndst="0"), 3),
            "mc-overflow-src": (cfg(msgs=2, ips=1, srcs=3, dsts=1, nall="0", nip="0,1", nsrc="1", ndst="0",
                                    maxops=2), 3),
        })
    return c


# as-is configurations: deviation(s) on -> which invariants may fire (any of them = found)
ASIS = {
    "DestFromSource": dict(devs=["DestFromSource"], nall="0", nip="0", nsrc="0,1", ndst="1,2", dsts=1),
    "NilIpRelease": dict(devs=["NilIpRelease"], nall="0,1", nip="0", nsrc="1", ndst="0"),
    "NilBucketDeref": dict(devs=["NeverReap", "NilBucketDeref"], nall="0,1", nip="1", nsrc="0", ndst="0",
                           ips=3, srcs=1),
    "ReapInUse": dict(devs=["ReapInUse"], nall="0", nip="1", nsrc="0", ndst="0", ips=3, srcs=1, maxops=2),
    "MailRejectNoRelease": dict(devs=["MailRejectNoRelease"], nall="0", nip="0", nsrc="0", ndst="1", remote=True),
    "ReleaseOtherKey": dict(devs=["ReleaseOtherKey"], nall="0", nip="0", nsrc="1", ndst="0", endp=True),
}


def load_findings():
    p = os.environ.get("VERIF_KNOWN_C11") or os.path.join(vlib.VERIF, "known_findings.d", "C11.json")
    if not os.path.exists(p):
        return []
    return [f for f in json.load(open(p)).get("findings", []) if f.get("property") == "C11"]


LEVELS = {"api": ("api",), "remote": ("api", "remote"), "endpoint": ("api", "endpoint")}
LEVEL_TEST = {"api": "TestReplay", "remote": "TestReplayRemote", "endpoint": "TestReplayEndpoint"}


def open_devs(findings, level):
    """deviation name -> finding, for the open entries visible at this level (a defect of
    limits.Group itself, level "api", is also visible through the remote target)."""
    out = {}
    for f in findings:
        if f.get("status", "open") != "open":
            continue
        m = f.get("match", {})
        if m.get("level", "api") not in LEVELS[level] or "deviation" not in m:
            continue
        out[m["deviation"]] = f
    return out


def trace_cfg(odev, level):
    devs = sorted(set(odev) | set(w for f in odev.values() for w in f["match"].get("with", [])))
    return cfg(msgs=3, probers=3, ips=8, srcs=8, dsts=8, nall="0", nip="0", nsrc="0", ndst="0", mb="1",
               maxops=99, fill=True, devs=devs, eager=True, gen=False, tail=TRACE_TAIL, strings=True,
               spec="TSpec", remote=level == "remote", endp=level == "endpoint", rawkey=True, special=True,
               park=level == "api")


def classify(ctx, verdicts, by_t, by_id, odev, selftest, stats, level):
    """verdict records of one level -> accepted / drift / known finding / violation"""
    for t, recs in sorted(verdicts.items()):
        mon = [r for r in recs if r["drift"] and not r.get("hw")]
        conf = [r for r in recs if not r["drift"]]
        hw = [r["driftAt"] for r in recs if r.get("hw")]
        if not mon:
            raise vlib.Infra("trace %s: no monitor verdict" % t)
        viol = sorted(set(v for r in mon for v in r["viol"]))
        if t in selftest:
            if conf:
                raise vlib.Infra("binding self-test failed: %s trace was accepted" % selftest[t])
            continue
        if viol:
            # known finding: the as-is model explains the whole trace, the deviations it took are all
            # open entries, and every violated predicate is one such a deviation produces
            expl = None
            for r in conf:
                dv = set(r["devs"])
                main = dv & set(odev)
                allowed = set(p for d in main for p in odev[d]["match"].get("predicates", []))
                extra_ok = set(w for d in main for w in odev[d]["match"].get("with", []))
                if main and dv <= (set(odev) | extra_ok) and set(viol) <= allowed:
                    expl = sorted(main)
                    break
            if expl:
                for d in expl:
                    f = odev[d]
                    ctx.known(f["id"], f["what"])
                    stats["kf"][f["id"]] = stats["kf"].get(f["id"], 0) + 1
                continue
            for v in viol:
                stats["preds"][v] = stats["preds"].get(v, 0) + 1
            what = "limits.Group (%s level) violates %s" % (level, ",".join(viol))
            if conf:
                what += " (as-is model: deviations %s)" % sorted(set(d for r in conf for d in r["devs"]))
            ctx.violation(what, {"property": "C11", "level": level, "behaviour": by_id[t], "trace": by_t[t],
                                 "violated": viol, "how": "bin/check C11 --replay <this file>"})
        elif conf:
            stats["ok"] += 1
        else:
            stats["drift"] += 1
            print("DRIFT property=C11 level=%s trace=%d last-explained-seq=%s" % (level, t, hw[0] if hw else 0))


def behaviours_from(r):
    return [{"cfg": v["cfg"], "hist": v["hist"]} for tag, v in r["printed"] if tag == "BEH"]


def dedup(behs):
    seen, out = set(), []
    for b in behs:
        k = json.dumps([b["cfg"], b["hist"]], sort_keys=True)
        if k not in seen and b["hist"]:
            seen.add(k)
            out.append(b)
    return out


def interesting(b):
    """a history in which callers meet: same key used by two callers, a tick, a fill"""
    keys = {}
    for s in b["hist"]:
        if s["a"] in ("Tick", "Minute", "Fill", "RcptReject"):
            return True
        if s["a"] == "TakeMsg":
            for k in ("*", s["ip"], s["src"]):
                keys.setdefault(k, set()).add(s["m"])
        if s["a"] == "TakeDest":
            keys.setdefault(s["d"], set()).add(s["m"])
    return any(len(v) > 1 for v in keys.values())


def parked_over(b):
    """a history in which something happens while a caller is held up at the yield point"""
    h = b["hist"]
    for i, s in enumerate(h):
        if s["a"] == "Park":
            rest = h[i + 1:]
            j = next((x for x, t in enumerate(rest) if t["a"] == "Unpark" and t["m"] == s["m"]), len(rest))
            if any(t["a"] in ("TakeMsg", "TakeDest") for t in rest[:j]):
                return True
    return False


def special_key(s):
    """a step that uses the null reverse-path or a message without a TCP peer address"""
    return s["a"] == "TakeMsg" and (s["src"] == "null" or s["ip"] == "lo")


def stratified_pick(rng, got, strata, n):
    """up to `quota` behaviours that contain a step satisfying `pred`, per stratum in order, without repetition;
    the rest of the n at random"""
    pick, seen = [], set()
    for pred, quota in strata:
        cand = [b for b in got if id(b) not in seen and any(pred(s) for s in b["hist"])]
        for b in vlib.sample(rng, cand, quota):
            seen.add(id(b))
            pick.append(b)
    rest = [b for b in got if id(b) not in seen]
    return pick + vlib.sample(rng, rest, max(0, n - len(pick)))


def validate_parallel(ctx, events, cfg_text, groups, name="tv"):
    """ctx.validate over `groups` disjoint sets of traces in parallel."""
    ts = sorted(set(e["t"] for e in events))
    groups = max(1, min(groups, len(ts)))
    part = {t: i % groups for i, t in enumerate(ts)}
    chunks = [[] for _ in range(groups)]
    for e in events:
        chunks[part[e["t"]]].append(e)
    verdicts, by_t = {}, {}
    with cf.ThreadPoolExecutor(max_workers=groups) as ex:
        futs = [ex.submit(ctx.validate, "LimitsTrace", None, ch, KEEP, "%s%d" % (name, i), cfg_text, 1500, 400)
                for i, ch in enumerate(chunks)]
        for f in futs:
            v, b = f.result()
            verdicts.update(v)
            by_t.update(b)
    return verdicts, by_t


def inductive(ctx):
    """Unbounded complement (thorough): LimitsInd.tla's inductive invariant discharged by Apalache.
    A failure of the tool is recorded, it never decides the property."""
    res = {}
    for nm, args in (("init_implies_inv", ["--cinit=CInit", "--init=Init", "--inv=IndInv", "--length=0"]),
                     ("inv_is_inductive", ["--cinit=CInit", "--init=IndInit", "--inv=IndInv", "--length=1"]),
                     ("inv_implies_at_most_N", ["--cinit=CInit", "--init=IndInit", "--inv=AtMostN", "--length=0"])):
        try:
            ok, tail = ctx.apalache("LimitsInd", args, name="apalache-" + nm, timeout=600)
        except Exception as e:  # tool missing etc.
            ok, tail = False, str(e)
        res[nm] = "discharged" if ok else "NOT discharged: " + tail[-200:]
    ctx.cov["apalache_inductive_invariant"] = res
    ctx.log("Apalache inductive invariant (LimitsInd.tla): %s" % res)


def run(ctx, replay):
    thorough = ctx.tier == "thorough"
    if thorough and not replay:
        inductive(ctx)
    findings = load_findings()
    odev = open_devs(findings, "api")
    ex = cf.ThreadPoolExecutor(max_workers=12)

    mc_futs, asis_futs = {}, {}

    # ---- (B) behaviours out of TLC ------------------------------------------------
    if replay:
        obj = json.load(open(replay))
        behs = [obj["behaviour"]]
        behs[0]["id"] = 1
        behs[0]["level"] = obj.get("level", behs[0].get("level", "api"))
    else:
        n_real, n_small, n_fit, n_fill, n_rem, n_endp, n_park = (1800, 500, 500, 150, 500, 500, 400) if thorough else \
            (200, 50, 50, 30, 50, 50, 40)
        gens = {
            # the real table capacity, three callers, all four scopes
            "gen-real": (cfg(msgs=3, ips=3, srcs=2, dsts=2, nall="0,1,2", nip="0,1,2", nsrc="0,1,2",
                             ndst="0,1,2", mb=str(REAL_MB), maxops=2, eager=True, gen=True,
                             tail=GEN_TAIL, strings=True), n_real, 70),
            # a table of 3 buckets and 4 keys per scope (MaxBuckets+2): overflow, reaping, "no bucket"
            "gen-small": (cfg(msgs=3, ips=4, srcs=4, dsts=4, nall="0,1", nip="0,1,2", nsrc="0,1,2",
                              ndst="0,1,2", mb="2", maxops=2, eager=True, gen=True,
                              tail=GEN_TAIL, strings=True), n_small, 70),
            # the same small table with a key population that just fits
            "gen-fit": (cfg(msgs=3, ips=2, srcs=2, dsts=2, nall="0,1", nip="0,1,2", nsrc="0,1,2",
                            ndst="0,1,2", mb="2", maxops=2, eager=True, gen=True,
                            tail=GEN_TAIL, strings=True), n_fit, 70),
            # more distinct keys than the real table holds (20011 > 20010), then ordinary traffic
            "gen-fill": (cfg(msgs=2, ips=2, srcs=2, dsts=2, nall="0,1", nip="0,1", nsrc="0,1",
                             ndst="0,1", mb=str(REAL_MB), maxops=2, fill=True, eager=True, gen=True,
                             tail=GEN_TAIL, strings=True), n_fill, 40),
            # remote level: deliveries of the remote target (Start / connectionForDomain / Close),
            # the next hop may refuse MAIL
            "gen-remote": (cfg(msgs=3, ips=2, srcs=2, dsts=2, nall="0,1", nip="0,1", nsrc="0,1,2",
                               ndst="1,2", mb=str(REAL_MB), maxops=2, eager=True, gen=True, remote=True,
                               tail=GEN_TAIL, strings=True, special=True), n_rem, 60),
            # endpoint level: SMTP sessions (startDelivery / releaseLimits), the pipeline may refuse the sender
            "gen-endpoint": (cfg(msgs=3, ips=2, srcs=2, dsts=1, nall="0,1,2", nip="0,1,2", nsrc="0,1,2",
                                 ndst="0", mb=str(REAL_MB), maxops=2, eager=True, gen=True, endp=True,
                                 tail=GEN_TAIL, strings=True, special=True), n_endp, 60),
        }
        # scheduling dimension Park/Unpark: a Take whose bucket has just granted the permit is held up while
        # time passes and other keys make a table of 2 buckets (3 keys per scope) reap; one keyed scope at a time
        # would be enough, all three are on/off
        gens["gen-park"] = (cfg(msgs=3, ips=3, srcs=3, dsts=3, nall="0", nip="0,1", nsrc="0,1", ndst="0,1,2",
                                mb="1", maxops=2, eager=True, gen=True, park=True,
                                tail=GEN_TAIL, strings=True), n_park, 40)
        if thorough:
            # long histories: up to 3 x 21 = 63 deliveries
            gens["gen-long"] = (cfg(msgs=3, ips=3, srcs=2, dsts=2, nall="1,2", nip="0,1,2", nsrc="0,1,2",
                                    ndst="0,1,2", mb=str(REAL_MB), maxops=21, eager=True, gen=True,
                                    tail=GEN_TAIL, strings=True), 60, 700)
        gfut = {k: ex.submit(ctx.tlc, "Limits", None, name=k, workers=1, timeout=900,
                             simulate=(max(40, n // 2) if k != "gen-park" else 40 * n) if k != "gen-long" else 30, depth=d, cfg_text=t)
                for k, (t, n, d) in gens.items()}
        # ---- (T) exhaustive model checking of the design, in the background -----------
        for name, (text, w) in mc_configs(thorough).items():
            mc_futs[name] = ex.submit(ctx.tlc, "LimitsMC", None, name=name, workers=w,
                                      timeout=3000 if thorough else 600, cfg_text=text)
        for name, kw in ASIS.items():
            if not thorough and not (set(kw["devs"]) & (set(open_devs(findings, "remote")) |
                                                         set(open_devs(findings, "endpoint")))):
                continue      # quick: non-vacuity of the open deviations only
            asis_futs[name] = ex.submit(ctx.tlc, "Limits", None, name="asis-" + name, workers=2, timeout=600,
                                        cfg_text=cfg(tail=ASIS_TAIL, strings=True, **kw))
        behs = []
        for k, (t, n, d) in gens.items():
            g = gfut[k].result()
            if not g["ok"]:
                raise vlib.Infra("behaviour generation %s failed: %s %s (see %s)" % (
                    k, g["invariant"], g["error"], g["dir"]))
            got = dedup(behaviours_from(g))
            if k == "gen-fill":
                got = [b for b in got if any(s["a"] == "Fill" for s in b["hist"])]
            if k == "gen-long":
                got = sorted(got, key=lambda b: -len(b["hist"]))[:4 * n]
            # prefer histories in which callers meet, keep a few trivial ones
            hot = [b for b in got if interesting(b)]
            cold = [b for b in got if not interesting(b)]
            pick = vlib.sample(ctx.rng, hot, n - n // 10) + vlib.sample(ctx.rng, cold, n // 10)
            if k == "gen-park":
                got = [b for b in got if parked_over(b)]
                pick = stratified_pick(ctx.rng, got, [(lambda s: s["a"] == "Minute", n - n // 4)], n)
            if k == "gen-remote":
                # strata: the next hop refuses MAIL / refuses the first RCPT of a domain / a further recipient on a
                # connected domain / REQUIRETLS cannot be met / null reverse-path or no TCP peer address
                strata = [(lambda s: s["a"] == "MailReject", n // 5), (lambda s: s["a"] == "RcptReject", n // 4),
                          (lambda s: s["a"] == "MoreRcpt", n // 6), (lambda s: s.get("reqtls"), n // 5),
                          (special_key, n // 6)]
                pick = stratified_pick(ctx.rng, got, strata, n)
                for b in pick:
                    b["level"] = "remote"
                    # how each delivery ends is the environment's choice: pooled or non-poolable connection
                    b["reuse"] = 1 if ctx.rng.random() < 0.3 else 10
                    for st in b["hist"]:
                        if st["a"] == "End":
                            st["how"] = ctx.rng.choice(["abort", "commit", "datafail", "drop", "rsetfail"])
            if k == "gen-endpoint":
                strata = [(lambda s: s["a"] == "NestedMail", n // 2), (special_key, n // 4)]
                pick = stratified_pick(ctx.rng, got, strata, n)
                for b in pick:
                    b["level"] = "endpoint"
                    b["defer"] = ctx.rng.random() < 0.5
                    for st in b["hist"]:
                        if st["a"] == "NestedMail":
                            st["null"] = ctx.rng.random() < 0.25     # MAIL FROM:<>
                            st["raw"] = ctx.rng.random() < 0.3
                        if st["a"] == "TakeMsg":
                            st["raw"] = ctx.rng.random() < 0.3
                            st["how"] = ctx.rng.choice(["reset", "logout", "data", "datafail", "rcptrej"])
            ctx.cov.setdefault("generated", {})[k] = {"printed": len(got), "replayed": len(pick)}
            behs += pick
        if not behs:
            raise vlib.Infra("TLC produced no behaviours")
        for i, b in enumerate(behs):
            b["id"] = i + 1
            b["dual"] = ctx.rng.random() < 0.25
            b["probe"] = thorough or ctx.rng.random() < 0.6
    allbehs = behs
    behs = [b for b in allbehs if b.get("level", "api") == "api"]
    ctx.log("%d behaviours to replay (%d at the remote/endpoint level)" % (len(allbehs), len(allbehs) - len(behs)))

    # ---- replay on the real limits.Group -----------------------------------------
    binary = ctx.build_harness("limitscheck")
    events = ctx.run_shards(binary, behs) if behs else []
    ctx.log("replayed: %d events" % len(events))
    by_id = {b["id"]: b for b in behs}

    # binding self-test: a corrupted and a truncated copy of an accepted trace
    selftest = {}
    if not replay:
        base = None
        for b in behs:
            evs = [e for e in events if e["t"] == b["id"]]
            if sum(1 for e in evs if e["e"] == "Ret" and e["res"] == "ok" and e["op"] == "TakeMsg") >= 2 and \
                    not any(e["e"] == "Ret" and e["res"] in ("nilptr", "mismatch", "other") for e in evs):
                base = evs
                break
        if base:
            c1 = [dict(e, t=900001) for e in base]
            for e in c1:
                if e["e"] == "Ret" and e["res"] == "ok" and e["op"] == "TakeMsg":
                    e["res"] = "timeout"      # corrupt one logged field
                    break
            c2 = [dict(e, t=900002) for e in base]
            k = next(i for i, e in enumerate(c2) if e["e"] == "Ret" and e["op"] == "TakeMsg")
            del c2[k]                          # drop one event
            events = events + c1 + c2
            selftest = {900001: "corrupt-field", 900002: "drop-event"}

    stats = {"ok": 0, "drift": 0, "kf": {}, "preds": {}}
    if events:
        verdicts, by_t = validate_parallel(ctx, events, trace_cfg(odev, "api"), 1 if replay else (6 if thorough else 4),
                                           "tv")
        ctx.log("validated %d API-level traces" % len(verdicts))
        classify(ctx, verdicts, by_t, by_id, odev, selftest, stats, "api")
    else:
        by_t = {}

    # ---- remote / endpoint level: the callers are real remote deliveries / SMTP sessions ----
    for level in ("remote", "endpoint"):
        lbehs = [b for b in allbehs if b.get("level") == level]
        if not lbehs:
            continue
        ldev = open_devs(findings, level)
        levents = ctx.run_shards(binary, lbehs, test=LEVEL_TEST[level], name="replay-" + level)
        ctx.log("%s level replayed: %d events" % (level, len(levents)))
        lverd, lby_t = validate_parallel(ctx, levents, trace_cfg(ldev, level), 1 if replay else 2, "tv" + level[0])
        classify(ctx, lverd, lby_t, {b["id"]: b for b in lbehs}, ldev, {}, stats, level)
        by_t.update(lby_t)
        ctx.cov[level + "_level_traces"] = len(lverd)
    ok, drift, kf_traces, preds = stats["ok"], stats["drift"], stats["kf"], stats["preds"]
    ctx.log("traces: %d accepted, %d drift, known-finding traces %s, violated predicates %s" % (
        ok, drift, kf_traces, preds))

    # ---- collect the exhaustive runs -------------------------------------------------
    if not replay:
        states = trans = depth = 0
        per = {}
        for name, fut in mc_futs.items():
            r = fut.result()
            if not r["ok"]:
                raise vlib.Infra("TLC did not accept Limits/%s: invariant=%s error=%s (see %s/tlc.out)" % (
                    name, r["invariant"], r["error"], r["dir"]))
            per[name] = {"distinct": r["distinct"], "generated": r["generated"], "depth": r["depth"],
                         "wall_s": round(r["wall"], 1)}
            states += r["distinct"]
            trans += r["generated"]
            depth = max(depth, r["depth"])
            ctx.log("TLC exhaustive %s: %d distinct states, %d transitions, depth %d, %.1fs" % (
                name, r["distinct"], r["generated"], r["depth"], r["wall"]))
        ctx.cov["states"] = states
        ctx.cov["transitions"] = trans
        ctx.cov["model_depth"] = depth
        ctx.cov["mc_runs"] = per
        found = {}
        for name, fut in asis_futs.items():
            r = fut.result()
            if not r["invariant"]:
                raise vlib.Infra("as-is model (%s) no longer violates any invariant: vacuous (%s, see %s)" % (
                    name, r["error"], r["dir"]))
            found[name] = r["invariant"]
        ctx.cov["asis_counterexamples"] = found
        ex.shutdown()

    if selftest:
        ctx.cov["binding_selftest"] = "corrupted-field and dropped-event traces rejected"
    ctx.cov["traces_validated_against_impl"] = ok
    ctx.cov["drift_traces"] = drift
    ctx.cov["known_finding_traces"] = kf_traces
    ctx.cov["evaluations"] = len(allbehs)
    ctx.cov["distinct_nontrivial"] = sum(1 for b in allbehs if interesting(b))
    ctx.cov["events"] = len(events)
    ctx.cov["rule"] = ("histories = complete behaviours of Limits.tla (Eager, Gen) printed by TLC -simulate at every "
                       "quiescent point, de-duplicated, sampled by VERIF_SEED; non-trivial = two callers use the "
                       "same scope key, or logical time passes, or the bucket table is filled beyond its capacity")
    ctx.cov["violated_predicates"] = preds
    for b in behs[:3]:
        ctx.cov["samples"].append({"behaviour": b, "trace": [
            {k: v for k, v in e.items() if k not in ("usex", "tl")} for e in by_t.get(b["id"], [])[:30]]})
    ctx.cov["exhaustive"] = False
    ctx.assumptions += [
        "API level: the harness is the caller and keeps the callers' discipline (release only what a take "
        "returned ok for, domains before the message)",
        "remote level: real remote.Target deliveries (verif constructor) over an in-memory resolver and net.Pipe "
        "connections to a minimal scripted SMTP server; no TLS, no MX policies; Start/AddRcpt/Abort are observed as "
        "TakeMsg/TakeDest/End; the next hop may refuse MAIL, the first RCPT of a domain (RcptReject: from then on the "
        "message need not hold that destination permit, but it must be back when the delivery ends) and further "
        "recipients (MoreRcpt: no limit operation); DATA without an accepted recipient is answered 503",
        "key populations of the remote and endpoint levels contain the null reverse-path (source key \"null\" = empty "
        "sender domain) and a message without a TCP peer address (ip key \"lo\" = 127.0.0.1: no connection state or a "
        "unix-socket peer)",
        "endpoint level: real endpoint/smtp sessions created without a socket (verif export) on an endpoint built "
        "from configuration nodes; Mail(+first Rcpt when deferred) is observed as TakeMsg, RSET/close/DATA as "
        "ReleaseMsg (also after a recipient refused by the pipeline); after DATA the harness issues the RSET go-smtp "
        "would issue",
        "time is the fake clock of a testing/synctest bubble (Tick = 2.5 s, Minute = 61 s); blocked = durably "
        "blocked after synctest.Wait()",
        "permits in use are read through the verif export accessors (length of Semaphore.c per bucket)",
        "rate limiters are not exercised (the property speaks about concurrency limits)",
        "TLC 1.8.0, CommunityModules Json reader",
    ]


META = {
    "engine": "limitscheck",
    "level": "model_checking",
    "technique": "TLA+ spec Limits.tla model-checked by TLC; TLC-generated concurrent call histories replayed on "
                 "the real limits.Group inside a testing/synctest bubble; recorded traces validated against "
                 "LimitsTrace.tla (property predicates in LimitsObs.tla)",
    "text": "TLC visits every interleaving of the channel operations and critical sections of TakeMsg (global -> ip -> "
            "source with roll-back), ReleaseMsg, TakeDest, ReleaseDest and BucketSet.take (creation, reaping, full "
            "table) for 2-3 concurrent deliveries, N in {1,2}, 1-3 keys per scope and key populations up to "
            "MaxBuckets+2, with time-outs wherever a call waits, and checks the C11 predicates in every state; the "
            "same predicates are evaluated by TLC over traces recorded from the real limits.Group (built from "
            "configuration nodes) driven with TLC-generated histories, including histories with 20011 distinct keys "
            "against the real table capacity of 20010, a probe after quiescence that N permits can be acquired "
            "again and the N+1st waits, and histories whose callers are real remote deliveries and real SMTP sessions.",
    "note": "Three levels: limits.Group driven directly (API), through real remote.Target deliveries against an in-memory "
            "scripted SMTP server (MAIL / RCPT refusal by the next hop, further recipients on a connected domain), and "
            "through real endpoint/smtp sessions without a socket (sender / recipient refusal by the pipeline, "
            "RSET/close/DATA endings, non-normalised sender spelling); both with the null reverse-path and with messages "
            "that have no TCP peer address. Time is "
            "the fake clock of a synctest bubble; rate limiters are not exercised; trusted: TLC, the harness, Go "
            "toolchain, the verif accessors.",
    "design_ref": "DESIGN.md section 5 C11",
}
