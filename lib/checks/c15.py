"""C15 - authenticated users can only send as addresses they are entitled to.

Pattern B (decision table).
(T) TLC enumerates every row of Authz.tla (entitlement table kind x normalisation
    x authenticated user spelling x MAIL FROM x From layout/style x Sender) and
    checks on each that the documented algorithm Rule satisfies the property
    Prop (accepted => entitled).
(B) The rows are run on the real check.authorize_sender (CheckSender + CheckBody
    over real table modules and internal/authz) and, for a sample, through the
    real submission/smtp endpoint (AUTH, MAIL, RCPT, DATA over an in-memory
    connection).  AuthzTrace.tla evaluates Prop on what the code answered
    (VIOLATION) and compares with Rule (DRIFT).
"""
import json
import os
from concurrent.futures import ThreadPoolExecutor

import vlib
from checks.c14 import load_findings

ALL_DEVS = ["FirstFromOnly"]

CFG = """SPECIFICATION %(spec)s
CONSTANTS
  Devs = {%(devs)s}
  Families = {"A", "B", "C", "D", "E", "F", "G", "H", "I"}
  Gen = %(gen)s
%(tail)s
"""


def cfg(spec="Spec", devs=(), gen=False, tail=""):
    return CFG % dict(spec=spec, devs=", ".join('"%s"' % d for d in devs), gen="TRUE" if gen else "FALSE", tail=tail)


def stratum(r):
    f = r["from"]
    if r["fam"] == "C":
        return ("C", r["tbl"], r["auth"]["a"], r["sasl"]["mech"], r["sasl"]["az"], r["nb"], r["chk"], r["mf"]["a"])
    if r["fam"] == "I":
        return ("I", r["tbl"], r["norm"], r["anorm"], r["auth"]["a"])
    return (r["fam"], r["tbl"], r["norm"], r["auth"]["a"], f["layout"], f["style"] if f["layout"] == "one" else "")


def directable(r):
    """rows the check module alone can be asked: no SASL exchange, no neighbour check"""
    return r["sasl"] == {"mech": "PLAIN", "az": "empty"} and r["nb"] == "absent"


def endpointable(r):
    """account W (the case twin of U's name, family I) exists for the check only: the endpoint's credential
    store is keyed by folded names (auth_map_normalize auto), where W and U are one login"""
    return r["auth"]["a"] != "W"


def stratified(rng, rows, n):
    """Seeded sample of n rows, round-robin over (table, normalisation, user, layout, style)."""
    if len(rows) <= n:
        return list(rows)
    groups = {}
    for r in rows:
        groups.setdefault(stratum(r), []).append(r)
    keys = sorted(groups)
    for k in keys:
        rng.shuffle(groups[k])
    out = []
    i = 0
    while len(out) < n:
        progressed = False
        for k in keys:
            g = groups[k]
            if i < len(g):
                out.append(g[i])
                progressed = True
                if len(out) >= n:
                    break
        if not progressed:
            break
        i += 1
    return out


def nontrivial(r):
    """a row where something other than 'the user's own address everywhere' is asked"""
    own = "self" if r["auth"]["a"] == "U" else "peer"
    f = r["from"]
    xs = [r["mf"]["a"]] + ([f["x"]["a"]] if f["x"]["a"] != "-" else []) + ([f["y"]["a"]] if f["y"]["a"] != "-" else [])
    return r["auth"]["a"] == "none" or any(x != own for x in xs) or r["sender"]["a"] != "-" or \
        any(it["v"] != "plain" for it in (r["auth"], r["mf"], f["x"])) or not r["chk"] or \
        r["sasl"]["az"] != "empty" or r["nb"] not in ("absent", "none") or r["act"] != "default" or r["fam"] in "EFGHI"


def run(ctx, replay):
    thorough = ctx.tier == "thorough"
    findings = load_findings("C15")
    open_f = [f for f in findings if f.get("status", "open") == "open"]
    open_devs = sorted({f["match"]["deviation"] for f in open_f})

    ex = ThreadPoolExecutor(max_workers=6)
    fut_build = ex.submit(ctx.build_harness, "authzcheck")
    # ---- (T) TLC enumerates the rows and checks Prop(in, Rule(in)) on each ------------
    fut_mc = ex.submit(ctx.tlc, "Authz", None, name="mc", workers=1, timeout=900,
                       cfg_text=cfg(gen=True, tail="INVARIANT RuleIsSafe\n"))
    fut_asis = {} if replay else {d: ex.submit(ctx.tlc, "Authz", None, name="asis-" + d, workers=1, timeout=600,
                                               cfg_text=cfg(devs=[d], tail="INVARIANT RuleIsSafe\n"))
                                  for d in ALL_DEVS}
    r = fut_mc.result()
    if not r["ok"]:
        raise vlib.Infra("TLC did not accept Authz.tla: invariant=%s error=%s (see %s/tlc.out)" % (
            r["invariant"], r["error"], r["dir"]))
    ctx.cov["states"] = r["distinct"]
    ctx.cov["transitions"] = r["generated"]
    ctx.log("TLC: %d rows enumerated, Rule satisfies Prop on every one, %.1fs" % (r["distinct"], r["wall"]))
    seen, rows = set(), []
    for tag, v in r["printed"]:
        if tag == "ROW":
            k = json.dumps(v, sort_keys=True)
            if k not in seen:
                seen.add(k)
                rows.append(v)
    if len(rows) != r["distinct"]:
        raise vlib.Infra("row list (%d) and TLC's distinct states (%d) differ" % (len(rows), r["distinct"]))
    for d, f in fut_asis.items():
        ra = f.result()
        if ra["invariant"] != "RuleIsSafe":
            raise vlib.Infra("as-is rule (%s) does not violate RuleIsSafe: the invariant is vacuous (%s)" % (d, ra["error"]))
    if fut_asis:
        ctx.cov["asis_counterexamples_found"] = ALL_DEVS
    rows.sort(key=lambda v: json.dumps(v, sort_keys=True))

    # ---- rows to run ----------------------------------------------------------------------
    if replay:
        obj = json.load(open(replay))
        items = [{"id": 1, "via": obj["via"], "in": obj["row"]}]
    else:
        # (sampling only) half of every sample has the user's own address as MAIL FROM, so that the
        # header rules are reached; the other half spreads over the other envelope senders
        def own_mf(x):
            return x["mf"]["a"] == ("peer" if x["auth"]["a"] == "V" else "self")
        rows_ab = [x for x in rows if x["fam"] in ("A", "B")]
        rows_def = [x for x in rows if x["fam"] in ("D", "E", "F", "G", "H")]   # small families: always run completely
        rows_c = [x for x in rows if x["fam"] == "C"]
        # family I (auth_normalize x from_normalize): the check on every row, the endpoint on a sample that has
        # every (table, from_normalize, auth_normalize, user) combination several times
        rows_i = [x for x in rows if x["fam"] == "I"]
        rows_ie = [x for x in rows_i if endpointable(x)]
        rows_own = [x for x in rows_ab if own_mf(x)]
        rows_oth = [x for x in rows_ab if not own_mf(x)]

        def sample(n):
            return stratified(ctx.rng, rows_own, n // 2) + stratified(ctx.rng, rows_oth, n - n // 2)
        # family C (session around the check): one row of every (table, user, mechanism, authzid, neighbour,
        # check_header, envelope sender) combination at least
        c_direct = [x for x in rows_c if directable(x)]
        direct = [x for x in rows if directable(x)] if thorough else \
            sample(7000) + stratified(ctx.rng, c_direct, 1200) + [x for x in rows_def if directable(x)] + rows_i
        e2e = [x for x in rows if endpointable(x)] if thorough else \
            sample(1000) + stratified(ctx.rng, rows_c, 2600) + rows_def + stratified(ctx.rng, rows_ie, 1200)
        items = [{"via": "direct", "in": x} for x in direct] + [{"via": "endpoint", "in": x} for x in e2e]
        for i, it in enumerate(items):
            it["id"] = i + 1
    ctx.log("%d rows to run (%d through the endpoint)" % (len(items), sum(1 for i in items if i["via"] == "endpoint")))

    binary = fut_build.result()
    events = ctx.run_shards(binary, items)
    by_t = {e["t"]: e for e in events}
    if len(by_t) != len(items):
        raise vlib.Infra("harness returned %d rows for %d inputs" % (len(by_t), len(items)))

    # binding self-test: copies of rows with the logged decision flipped - "accepted" for an unauthenticated row
    # must be a violation, "rejected" for a row the rule accepts must be drift.  Only copies of rows whose own
    # verdict is clean are judged (a mutant may have got the original wrong).
    selftest = {}
    if not replay:
        rej = [e for e in events if e["via"] == "direct" and not e["out"]["accepted"] and e["in"]["auth"]["a"] == "none"
               and e["in"]["act"] == "default"][:5]
        acc = [e for e in events if e["via"] == "direct" and e["out"]["accepted"] and e["in"]["from"]["layout"] == "one"
               and e["in"]["act"] == "default"][:5]
        extra = []
        for i, e in enumerate(rej):
            extra.append(dict(e, t=900001 + i, out=dict(e["out"], accepted=True, flagged=False)))
            selftest[900001 + i] = ("viol", e["t"])
        for i, e in enumerate(acc):
            extra.append(dict(e, t=900101 + i, out=dict(e["out"], accepted=False)))
            selftest[900101 + i] = ("drift", e["t"])
        events = events + extra

    # ---- TLC evaluates Prop / Rule on what the code answered -------------------------------
    batch = 12000
    chunks = [events[i:i + batch] for i in range(0, len(events), batch)]

    def validate(ci):
        d = ctx.sub("rows-in%d" % ci)
        tf = os.path.join(d, "trace.ndjson")
        with open(tf, "w") as f:
            for e in chunks[ci]:
                f.write(json.dumps(e) + "\n")
        v = ctx.tlc("AuthzTrace", None, name="rows-b%d" % ci, workers=1, timeout=1500, extra_files=[tf],
                    cfg_text=cfg(spec="TSpec", devs=open_devs, tail="CHECK_DEADLOCK FALSE\nPOSTCONDITION Post\n"))
        if not v["ok"]:
            raise vlib.Infra("row validation failed: %s %s (see %s/tlc.out)" % (v["invariant"], v["error"], v["dir"]))
        got = [val for tag, val in v["printed"] if tag == "VERDICTS"]
        if not got or got[-1]["n"] != len(chunks[ci]):
            raise vlib.Infra("no/incomplete VERDICTS from AuthzTrace (see %s/tlc.out)" % v["dir"])
        return got[-1]
    results = list(ex.map(validate, range(len(chunks))))
    ex.shutdown()
    ctx.log("rows validated by TLC")

    bad = {}
    accepted_rows = 0
    for res in results:
        accepted_rows += res["accepted"]
        for v in res["bad"]:
            bad[v["t"]] = v
    judged = set()
    for t, (kind, orig) in selftest.items():
        v = bad.pop(t, None)
        if orig in bad:
            continue
        if v is None or (kind == "viol" and not v["viol"]) or (kind == "drift" and not v["drift"]):
            raise vlib.Infra("binding self-test failed: corrupted row %d (%s) was accepted" % (t, kind))
        judged.add(kind)
    if selftest:
        ctx.cov["binding_selftest"] = "flipped decisions rejected by the trace spec: " + ",".join(sorted(judged))
        accepted_rows -= sum(1 for k, _ in selftest.values() if k == "viol")

    drift = known_rows = 0
    for t, v in sorted(bad.items()):
        e = by_t[t]
        if v["viol"]:
            fs = [f for f in open_f if f["match"]["deviation"] in v["devs"]
                  and set(v["viol"]) <= set(f["match"]["predicates"])
                  and e["in"]["from"]["layout"] in f["match"].get("layouts", [e["in"]["from"]["layout"]])]
            if fs and not v["drift"]:
                known_rows += 1
                for f in fs:
                    ctx.known(f["id"], f["what"])
            else:
                what = "accepted although not entitled (%s): %s" % (e["via"], json.dumps(e["in"], sort_keys=True))
                ctx.violation(what, {"property": "C15", "row": e["in"], "via": e["via"], "out": e["out"],
                                     "violated": v["viol"], "how": "bin/check C15 --replay <this file>"})
        elif v["drift"]:
            drift += 1
            if drift <= 25:
                print("DRIFT property=C15 row=%d rule=%s code=%s %s" % (
                    t, v["rule"], json.dumps(e["out"], sort_keys=True), json.dumps(e["in"], sort_keys=True)))
    if drift > 25:
        print("DRIFT property=C15 ... %d more rows" % (drift - 25))
    n_direct = sum(1 for i in items if i["via"] == "direct")
    ctx.cov["traces_validated_against_impl"] = len(items) - drift - known_rows - len(ctx.violations)
    ctx.cov["rows_direct"] = n_direct
    ctx.cov["rows_endpoint"] = len(items) - n_direct
    ctx.cov["rows_accepted_by_code"] = accepted_rows
    ctx.cov["rows_accepted_direct"] = sum(1 for e in by_t.values() if e["via"] == "direct" and e["out"]["accepted"])
    ctx.cov["rows_accepted_endpoint"] = sum(1 for e in by_t.values() if e["via"] == "endpoint" and e["out"]["accepted"])
    stages = {}
    for e in by_t.values():
        k = e["via"] + ":" + e["out"]["stage"]
        stages[k] = stages.get(k, 0) + 1
    ctx.cov["decision_stage_counts"] = stages
    ctx.cov["rows_with_known_findings_only"] = known_rows
    ctx.cov["drift_rows"] = drift
    ctx.cov["evaluations"] = len(items)
    ctx.cov["distinct_nontrivial"] = len({json.dumps(i["in"], sort_keys=True) for i in items if nontrivial(i["in"])})
    ctx.cov["rule"] = ("rows = the complete input space of Authz.tla printed by TLC (family A: 6 table kinds x user x 7 MAIL FROM "
                       "mailboxes x 108 From layouts/styles x 4 Sender; family B: spelling variants x all 7 "
                       "normalisation settings; family C: null/postmaster envelope senders x check_header x SASL mechanism/authzid x "
                       "neighbour check; D: action directives plain/custom reply; E: ToLower-only twins after an entitled envelope "
                       "sender x every normalisation; F: table.chain mappings; G: addresses that differ from an entitled one by an IDNA "
                       "deviation character (sharp s, final sigma, ZWNJ) as envelope sender / From / Sender x every normalisation; "
                       "H: user_to_email / prepare_email in a table.file that is edited (revoke, delete line, replace, grant, rewrite) "
                       "and reloaded between two messages; I: auth_normalize and from_normalize set independently (all 49 pairs) over a mapping "
                       "with case twins as distinct accounts / addresses and the ToLower-only twin; family A also has four layouts with a repeated From field whose later "
                       "instance lists further mailboxes); thorough runs every row through the endpoint and the SASL/neighbour-free ones on the check, "
                       "quick a stratified seeded sample of both; non-trivial = unauthenticated, or some address other "
                       "than the user's own, or a Sender, or a non-canonical spelling")
    ctx.cov["open_deviations"] = open_devs
    ctx.cov["exhaustive"] = bool(thorough and not replay)
    for it in items[:2] + items[-2:]:
        ctx.cov["samples"].append(by_t[it["id"]])
    if not replay and (ctx.cov["rows_accepted_direct"] == 0 or ctx.cov["rows_accepted_endpoint"] == 0):
        raise vlib.Infra("the code accepted no row at all: the run says nothing (harness misconfigured?)")
    ctx.assumptions += [
        "the spellings of a mailbox (upper case, NFD, full-width letters, A-label domain) are the same address; "
        "the harness only renders identifiers to strings",
        "From/Sender header sections are rendered by the harness from the abstract layout (RFC 5322 syntax: "
        "angle-addr, display names, encoded words, comments, folding, groups, repeated fields)",
        "where the operator configured a quarantine action, a delivery carrying the quarantine flag counts as the refusal; "
        "with check_header no only the envelope clause is demanded",
        "the authenticated user of a row is the account whose password the client presented (SASL authentication identity)",
        "where from_normalize keeps the case of local parts (noop, precis, precis_email) and the mapping lists zoe@ and ZOE@ "
        "for different users, they are two addresses; an account named ZOE@ is an account of its own where auth_normalize "
        "keeps the case (family I only; rows through the check, the endpoint's credential store folds names)",
        "neighbour check = harness/scripted check.verif_scripted in the same check block, failing at sender and body stage",
        "endpoint rows: credentials in auth.pass_table (bcrypt cost 4, one password per account), auth_map_normalize auto, real PLAIN/LOGIN exchanges",
        "TLC, CommunityModules Json reader, go1.26 toolchain",
    ]


META = {
    "engine": "authzcheck",
    "level": "model_checking",
    "technique": "TLA+ decision-table spec Authz.tla: TLC enumerates the input space and checks the documented rule against "
                 "the declarative property on every row; the rows drive the real check.authorize_sender and the real "
                 "submission endpoint; AuthzTrace.tla evaluates the property on what the code answered",
    "text": "TLC enumerates all 150,926 rows (entitlement tables identity/list/domain wildcard/'*'/absent/prepare_email, "
            "all 7 normalisation settings, user spellings, MAIL FROM, From layouts incl. several fields, groups, display-name "
            "and encoded-word tricks, Sender; null and postmaster envelope senders, check_header yes/no, SASL mechanism and "
            "authorization identity, a quarantining/rejecting neighbour check, action directives with custom SMTP replies, "
            "mailboxes that only strings.ToLower confuses (U+0130) after an entitled envelope sender, table.chain mappings, "
            "IDNA deviation-character twins of an entitled address, a table.file mapping edited and reloaded between two "
            "messages, auth_normalize and from_normalize set independently (49 pairs) over case-twin accounts and addresses, repeated From fields whose later instance lists further mailboxes) "
            "and checks Rule against Prop on each; thorough "
            "runs every row through the real endpoint and every row without SASL/neighbour dimension on the check alone, "
            "quick a stratified seeded sample (about 15,200 + 9,600, the small families completely); TLC evaluates "
            "Prop/Rule on the recorded decisions.",
    "note": "One-sided (safety) property: an over-strict refusal is drift, not a violation. Header sections are rendered by "
            "the harness; the spelling equivalence of addresses is an assumption of the model.",
    "design_ref": "DESIGN.md section 5 C15",
}
