"""X05 - local delivery into the IMAP storage: one copy per recipient mailbox, failures per recipient.

(T) TLC checks LocalStore.tla exhaustively (every envelope, normalization, delivery_map, filter
    answer, blob-store fault, account removal / auto-creation and ending inside the bound) and
    confirms that every named deviation (Devs) is found by the same invariants.
(B) TLC-generated behaviours (exhaustive directed families + seeded simulation over the full
    dimensions) are replayed on the real storage module: internal/storage/imapsql over a real
    sqlite database and file-system message store, the real imap_filter group, scripted filters
    or the real imap.filter.command.  After every call the harness reads every mailbox of every
    account back through the IMAP backend API; the recorded traces are validated against
    LocalStoreTrace.tla, the property predicates (LocalStoreObs.tla) are evaluated by TLC on what
    the real code did.
"""
import json
import os
import shutil
import subprocess
import time
from concurrent.futures import ThreadPoolExecutor

import vlib

PID = "X05"
KEEP_FIELDS = {"t", "seq", "e", "norm", "dmap", "nf", "jbox", "junkName", "msgs", "msg", "quar", "snap", "ad",
               "res", "acct", "outs", "fault", "calls", "orphans", "watch", "told"}

ALL_ADDRS = ["a", "aC", "aW", "b", "bC", "bA", "u", "x", "s", "sC", "g", "f"]
ALL_NORMS = ["precis_casefold_email", "precis_email", "casefold", "noop"]
ALL_DEVS = ["CaseKey", "MapErrPerm", "BlobLeak", "EarlyNotify"]

# which predicates a deviation of the as-is model can make false
DEV_PREDS = {
    "CaseKey": {"ExtraCopy", "WrongMailbox", "MissingFlag"},
    "MapErrPerm": {"LookupFailureReportedPermanent"},
    "BlobLeak": {"OrphanBlob"},
    "EarlyNotify": {"AnnouncedUncommitted"},
}

CFG = """SPECIFICATION %(spec)s
CONSTANTS
  Addrs = {%(addrs)s}
  MaxList = %(maxlist)d
  MaxMsgs = %(maxmsgs)d
  Norms = {%(norms)s}
  DMaps = {%(dmaps)s}
  NFilts = {%(nfilts)s}
  Out1 = {%(out1)s}
  Out2 = {%(out2)s}
  JBoxes = {%(jboxes)s}
  JunkNames = {%(junk)s}
  QuarSet = {%(quar)s}
  WatchSet = {%(watch)s}
  EnvActs = {%(env)s}
  DelAccts = {%(dels)s}
  Faults = %(faults)s
  Devs = {%(devs)s}
  Gen = %(gen)s
%(tail)s
"""

MC_TAIL = "VIEW View\nINVARIANTS NoViolation TypeOK OneCopy\nPROPERTIES Atomic Terminates\n"
ASIS_TAIL = "VIEW View\nINVARIANTS NoViolation\n"
GEN_TAIL = "CHECK_DEADLOCK FALSE\n"
TRACE_TAIL = "CHECK_DEADLOCK FALSE\nPOSTCONDITION Post\n"


def q(xs):
    return ", ".join('"%s"' % x for x in xs)


def b(xs):
    return ", ".join("TRUE" if x else "FALSE" for x in xs)


def cfg(addrs, maxlist=2, maxmsgs=1, norms=("precis_casefold_email",), dmaps=(False,), nfilts=(0,),
        out1=("n",), out2=("n",), jboxes=("none",), junk=("Junk",), quar=(False,), watch=(True,), env=(), dels=(),
        faults=False, devs=(), gen=False, tail=MC_TAIL, spec="Spec"):
    return CFG % dict(spec=spec, addrs=q(addrs), maxlist=maxlist, maxmsgs=maxmsgs, norms=q(norms), dmaps=b(dmaps),
                      nfilts=", ".join(str(n) for n in nfilts), out1=q(out1), out2=q(out2), jboxes=q(jboxes),
                      junk=q(junk), quar=b(quar), watch=b(watch), env=q(env), dels=q(dels),
                      faults="TRUE" if faults else "FALSE", devs=q(devs),
                      gen="TRUE" if gen else "FALSE", tail=tail)


# exhaustive model-checking bounds
MC_QUICK = dict(addrs=["a", "aC", "b", "u", "x", "s", "f"], maxlist=2, norms=["precis_casefold_email", "noop"],
                dmaps=[False, True], nfilts=[0, 1], out1=["e", "n", "wF", "x"], out2=["n", "r"],
                jboxes=["none", "special"], quar=[False, True], env=["Delete", "Login"], dels=["b"], faults=True)
MC_THOROUGH_A = dict(addrs=ALL_ADDRS, maxlist=2, norms=ALL_NORMS, dmaps=[False, True], nfilts=[0, 1],
                     out1=["e", "n", "nF", "w", "wF", "x"], out2=["n"], jboxes=["none", "special", "plain"],
                     junk=["Junk", "Suspect"], quar=[False, True], env=["Delete", "Login"], dels=["a", "b"],
                     faults=True)
MC_THOROUGH_B = dict(addrs=["a", "aC", "b", "u", "s"], maxlist=3, maxmsgs=1, norms=["precis_casefold_email", "noop"],
                     dmaps=[False, True], nfilts=[2], out1=["e", "nF", "w", "x"], out2=["e", "n", "r", "x"],
                     jboxes=["none"], quar=[False, True], env=["Delete"], dels=["b"], faults=True)
MC_THOROUGH_C = dict(addrs=["a", "b", "u"], maxlist=2, maxmsgs=2, norms=["precis_casefold_email"],
                     dmaps=[False], nfilts=[1], out1=["e", "wF"], out2=["n"], jboxes=["none", "special"],
                     quar=[False, True], env=["Delete", "Login"], dels=["a", "b"], faults=True)

# as-is models: each deviation alone must be found by NoViolation
ASIS = dict(addrs=["a", "aC", "b", "f"], maxlist=2, norms=["precis_casefold_email", "noop"], dmaps=[False, True],
            nfilts=[0, 1], out1=["n", "wF"], quar=[False, True], watch=[True])

# directed families of behaviours (exhaustive, Gen = TRUE): name -> constants
FAMILIES = {
    # spellings of one account under every normalization, with and without delivery_map
    "spell": dict(addrs=["a", "aC", "aW", "b", "bC", "bA"], maxlist=2, norms=ALL_NORMS, dmaps=[False, True],
                  nfilts=[1], out1=["wF"], quar=[False]),
    "spell3": dict(addrs=["a", "aC", "aW"], maxlist=3, norms=ALL_NORMS, dmaps=[False], nfilts=[1],
                   out1=["n", "wF"], quar=[False, True], faults=True),
    # unknown / malformed / mapped / failing look-ups next to a good recipient
    "rcpt": dict(addrs=["a", "u", "x", "s", "sC", "g", "f"], maxlist=2, norms=["precis_casefold_email", "noop"],
                 dmaps=[False, True], nfilts=[0], quar=[False], env=["Login"]),
    # blob-store faults, account removal and auto-creation around the calls
    "fault": dict(addrs=["a", "b", "u"], maxlist=2, norms=["precis_casefold_email"], nfilts=[0, 1],
                  out1=["w", "e"], quar=[False, True], env=["Delete", "Login"], dels=["a", "b"], faults=True),
    # two filters: every pair of answers
    "filters": dict(addrs=["a", "u"], maxlist=2, norms=["precis_casefold_email"], nfilts=[1, 2],
                    out1=["e", "n", "nF", "w", "wF", "x"], out2=["e", "n", "r", "x"], quar=[False, True],
                    env=["Login"]),
    # quarantine: special-use junk mailbox, plain mailbox of that name, none; both names
    "junk": dict(addrs=["a", "b", "u"], maxlist=2, norms=["precis_casefold_email"], nfilts=[0, 1], out1=["wF"],
                 jboxes=["none", "special", "plain"], junk=["Junk", "Suspect"], quar=[True], env=["Login"],
                 faults=True),
    # two messages in a row: what the first left behind must stay
    "two": dict(addrs=["a", "b"], maxlist=1, maxmsgs=2, norms=["precis_casefold_email"], nfilts=[1],
                out1=["n", "wF"], jboxes=["none", "special"], quar=[False, True], env=["Delete"], dels=["a"],
                faults=True),
}
QUICK_PER_FAMILY = 55
QUICK_SIM = 160
THOROUGH_SIM = 8000
THOROUGH_FAMILY_CAP = 9000

SIM = dict(addrs=ALL_ADDRS, maxlist=3, maxmsgs=2, norms=ALL_NORMS, dmaps=[False, True], nfilts=[0, 1, 2],
           watch=[False, True],
           out1=["e", "n", "nF", "w", "wF", "x"], out2=["e", "n", "r", "x"], jboxes=["none", "special", "plain"],
           junk=["Junk", "Suspect"], quar=[False, True], env=["Delete", "Login"], dels=["a", "b"], faults=True)

TRACE = dict(addrs=["a"], maxlist=1, maxmsgs=3, norms=["noop"], nfilts=[0], watch=[False, True],
             out1=["e", "n", "nF", "w", "wF", "x"],
             out2=["e", "n", "r", "x"], env=["Delete", "Login"], dels=["a", "b"], faults=True)


def load_findings():
    p = os.path.join(vlib.VERIF, "extensions", "findings.json")
    if not os.path.exists(p):
        return []
    return [f for f in json.load(open(p)).get("findings", []) if f.get("ext") == PID]


def open_devs():
    """deviation name -> finding, for the open findings of this extension"""
    out = {}
    for f in load_findings():
        if f.get("status", "open") == "open" and f.get("match", {}).get("deviation"):
            out[f["match"]["deviation"]] = f
    return out


def build(ctx):
    """go test -c with a private -modfile: the shared harness/go.mod is never rewritten by this check"""
    out = os.path.join(ctx.work, "localstorecheck.test")
    mf = os.path.join(ctx.work, "go.mod")
    txt = open(os.path.join(vlib.HARNESS, "go.mod")).read().replace("=> /repo", "=> " + ctx.repo)
    open(mf, "w").write(txt)
    shutil.copy(os.path.join(ctx.repo, "go.sum"), os.path.join(ctx.work, "go.sum"))
    cmd = ["go1.26", "test", "-c", "-tags", "verif", "-modfile", mf, "-o", out, "./localstorecheck"]
    t0 = time.time()
    p = subprocess.run(cmd, cwd=vlib.HARNESS, env=vlib.goenv(), stdout=subprocess.PIPE, stderr=subprocess.STDOUT,
                       text=True)
    if p.returncode != 0 or not os.path.exists(out):
        raise vlib.Infra("harness build failed (localstorecheck):\n%s" % p.stdout[-4000:])
    ctx.log("built harness localstorecheck in %.1fs" % (time.time() - t0))
    return out


def behaviours_from(r):
    return [{"cfg": val["cfg"], "hist": val["hist"]} for tag, val in r["printed"] if tag == "BEH"]


def nontrivial(bh):
    for s in bh["hist"]:
        if s["a"] in ("Delete", "Login") or s.get("fault"):
            return True
        if s["a"] == "Body" and any(v != "n" for o in s.get("outs", []) for v in o.values()):
            return True
    return any(len(set(m["list"])) < len(m["list"]) or set(m["list"]) - {"a", "b"} for m in bh["cfg"]["msgs"])


def classify(ctx, t, recs, odevs):
    """-> ("ok"|"drift"|"finding"|"violation", viol, finding ids)"""
    viol = sorted(set(v for r in recs for v in r["viol"]))
    conform = any(not r["drift"] for r in recs)
    if not viol:
        return ("ok" if conform else "drift"), viol, []
    if conform:
        used = set(u for r in recs if not r["drift"] for u in r["used"])
        explained, fids = set(), []
        for d in sorted(used):
            if d in odevs:
                explained |= DEV_PREDS.get(d, set())
                fids.append((odevs[d]["id"], d))
        if set(viol) <= explained:
            return "finding", viol, [(fid, d) for fid, d in fids if DEV_PREDS[d] & set(viol)]
    return "violation", viol, []


def run(ctx, replay):
    thorough = ctx.tier == "thorough"
    odevs = open_devs()
    devs_open = [d for d in ALL_DEVS if d in odevs]
    binary = build(ctx)

    # ---- (T) exhaustive model checking of the design --------------------------------
    if not replay:
        runs = [("mc", MC_QUICK)] if not thorough else [("mcA", MC_THOROUGH_A), ("mcB", MC_THOROUGH_B),
                                                         ("mcC", MC_THOROUGH_C)]
        st = tr = dp = 0
        for name, c in runs:
            r = ctx.tlc_expect_ok("LocalStore", None, name=name, workers=16 if thorough else 8,
                                  timeout=3000 if thorough else 600, cfg_text=cfg(**c), heap="12g" if thorough else None)
            st += r["distinct"]
            tr += r["generated"]
            dp = max(dp, r["depth"])
            ctx.log("TLC exhaustive %s: %d distinct states, %d generated, depth %d, %.1fs" % (
                name, r["distinct"], r["generated"], r["depth"], r["wall"]))
        ctx.cov["states"], ctx.cov["transitions"], ctx.cov["model_depth"] = st, tr, dp
        # every named deviation alone must be found by the same invariant (non-vacuity)
        with ThreadPoolExecutor(max_workers=4) as ex:
            asis = list(ex.map(lambda d: ctx.tlc("LocalStore", None, name="asis-" + d, workers=2, timeout=300,
                                                 cfg_text=cfg(devs=[d], tail=ASIS_TAIL, **ASIS)), ALL_DEVS))
        for d, ra in zip(ALL_DEVS, asis):
            if ra["invariant"] != "NoViolation":
                raise vlib.Infra("as-is model (%s) no longer violates NoViolation: the invariant is vacuous "
                                 "(%s)" % (d, ra["error"]))
        ctx.cov["asis_counterexamples_found"] = list(ALL_DEVS)

    # ---- (B) behaviours out of TLC -------------------------------------------------------
    if replay:
        obj = json.load(open(replay))
        behs = [obj["behaviour"]]
        behs[0]["id"] = 1
    else:
        behs = []
        fam_counts = {}
        names = sorted(FAMILIES)
        with ThreadPoolExecutor(max_workers=4) as ex:
            gens = list(ex.map(lambda name: ctx.tlc(
                "LocalStore", None, name="gen-" + name, workers=2, timeout=900,
                cfg_text=cfg(devs=devs_open, gen=True, tail=GEN_TAIL, **FAMILIES[name])), names))
        for name, g in zip(names, gens):
            if not g["ok"]:
                raise vlib.Infra("behaviour generation (%s) failed: %s %s" % (name, g["invariant"], g["error"]))
            fb = behaviours_from(g)
            if not fb:
                raise vlib.Infra("TLC produced no behaviours for family " + name)
            fam_counts[name] = len(fb)
            fb.sort(key=lambda x: json.dumps(x, sort_keys=True))
            take = THOROUGH_FAMILY_CAP if thorough else QUICK_PER_FAMILY
            pick = vlib.sample(ctx.rng, fb, take)
            for x in pick:
                x["family"] = name
            behs += pick
        ctx.cov["family_behaviours_total"] = fam_counts
        g2 = ctx.tlc("LocalStore", None, name="sim", workers=1, timeout=1200,
                     simulate=THOROUGH_SIM if thorough else QUICK_SIM, depth=40,
                     cfg_text=cfg(devs=devs_open, gen=True, tail=GEN_TAIL, spec="SimSpec", **SIM))
        if not g2["ok"]:
            raise vlib.Infra("behaviour simulation failed: %s %s" % (g2["invariant"], g2["error"]))
        sb = behaviours_from(g2)
        for x in sb:
            x["family"] = "sim"
        behs += sb
        seen, uniq = set(), []
        for x in behs:
            k = json.dumps([x["cfg"], x["hist"]], sort_keys=True)
            if k not in seen:
                seen.add(k)
                uniq.append(x)
        behs = uniq
        for i, x in enumerate(behs):
            x["id"] = i + 1
            # harness-only dimension: every fifth behaviour with filters runs the real imap.filter.command
            x["fkind"] = "command" if (x["cfg"]["nf"] > 0 and i % 5 == 2) else "scripted"
            # harness-only dimensions of the storage configuration: a tiny appendlimit (documented not to
            # apply to deliveries), compressed message store
            x["limit"] = i % 3 == 1
            x["comp"] = ["", "", "", "zstd", "", "lz4", ""][i % 7]
    ctx.log("%d behaviours to replay" % len(behs))

    # ---- replay on the real storage ----------------------------------------------------------
    events = ctx.run_shards(binary, behs, timeout=2400)
    by_id = {x["id"]: x for x in behs}
    full = {}
    for e in events:
        full.setdefault(e["t"], []).append(e)
    events = [{k: v for k, v in e.items() if k in KEEP_FIELDS} for e in events]

    # binding self-test: a corrupted and a truncated copy of an accepted trace must be rejected
    selftest = {}
    if not replay:
        base = None
        for x in behs:
            evs = [e for e in events if e["t"] == x["id"]]
            if sum(1 for e in evs if e["e"] == "AddRcpt" and e["res"] == "ok") >= 2 and \
                    any(e["e"] == "Commit" and e["snap"] for e in evs):
                base = evs
                break
        if base:
            c1 = json.loads(json.dumps([dict(e, t=900001) for e in base]))
            for e in c1:
                if e["e"] == "Commit" and e["snap"]:
                    e["snap"][0]["mbox"] = "Elsewhere"     # corrupt one logged field
                    break
            c2 = [dict(e, t=900002) for e in base]
            k = next(i for i, e in enumerate(c2) if e["e"] == "AddRcpt" and e["res"] == "ok")
            del c2[k]                                       # drop one event
            events = events + c1 + c2
            selftest = {900001: "corrupt-field", 900002: "drop-event"}

    verdicts, by_t = ctx.validate("LocalStoreTrace", None, events,
                                  cfg_text=cfg(devs=devs_open, tail=TRACE_TAIL, spec="TSpec", **TRACE),
                                  batch=2500)

    ok = drift = nfind = 0
    preds = {}
    bad = []
    for t, recs in sorted(verdicts.items()):
        if t in selftest:
            accepted = any(not r["drift"] for r in recs)
            if accepted:
                raise vlib.Infra("binding self-test failed: %s trace was accepted" % selftest[t])
            if t == 900001 and not any("WrongMailbox" in r["viol"] for r in recs):
                raise vlib.Infra("binding self-test failed: the corrupted snapshot did not trip WrongMailbox")
            continue
        kind, viol, fids = classify(ctx, t, recs, odevs)
        if kind == "ok":
            ok += 1
        elif kind == "drift":
            drift += 1
            print("DRIFT property=%s trace=%d first-unexplained-seq=%s" % (PID, t, recs[0]["driftAt"]))
        elif kind == "finding":
            nfind += 1
            ok += 1
            for fid, d in fids:
                what = odevs[d].get("what", d)
                if (fid, what) not in ctx.known_seen:
                    ctx.known_seen.append((fid, what))
                    print("EXT-FINDING: ext=%s %s %s" % (PID, fid, what))
        else:
            for v in viol:
                preds[v] = preds.get(v, 0) + 1
            bad.append((t, viol, recs))
    # the stored artefacts (the first few) should be the informative ones: traces violating a predicate
    # that no open finding can explain come first
    known_preds = set().union(*[DEV_PREDS[d] for d in odevs]) if odevs else set()
    common = DEV_PREDS["BlobLeak"] | DEV_PREDS["EarlyNotify"]    # seen in a third of all traces anyway
    bad.sort(key=lambda x: (-len(set(x[1]) - known_preds), -len(set(x[1]) - common), len(x[1]), x[0]))
    for t, viol, recs in bad:
        what = "storage behaviour violates " + ",".join(viol)
        ctx.violation(what, {"property": PID, "behaviour": by_id[t], "trace": full.get(t, by_t[t]),
                             "violated": viol, "verdict": recs,
                             "how": "bin/check X05 --replay <this file>"})
    if selftest:
        ctx.cov["binding_selftest"] = "corrupted-field and dropped-event traces rejected"
    ctx.cov["traces_validated_against_impl"] = ok
    ctx.cov["traces_showing_open_findings"] = nfind
    ctx.cov["drift_traces"] = drift
    ctx.cov["evaluations"] = len(behs)
    ctx.cov["distinct_nontrivial"] = sum(1 for x in behs if nontrivial(x))
    ctx.cov["command_filter_traces"] = sum(1 for x in behs if x.get("fkind") == "command")
    ctx.cov["rule"] = ("behaviours = complete behaviours of LocalStore.tla printed by TLC: exhaustive directed "
                       "families (sampled by VERIF_SEED in quick, up to %d each in thorough) + -simulate over all "
                       "dimensions, de-duplicated; non-trivial = a fault, an environment step, a filter answer "
                       "other than 'nothing', a duplicate/variant/unknown recipient" % THOROUGH_FAMILY_CAP)
    ctx.cov["violated_predicates"] = preds
    for x in behs[:3]:
        ctx.cov["samples"].append({"behaviour": x, "trace": full.get(x["id"], [])[:12]})
    ctx.cov["exhaustive"] = False
    ctx.assumptions += [
        "the storage runs on sqlite3 (cgo) with the file-system message store; PostgreSQL paths "
        "(SerializationError -> 453) are not exercised",
        "one delivery at a time (no two overlapping transactions on one database)",
        "blob-store write failures are injected by a wrapper module around storage.blob.fs; filters are "
        "scripted modules or the real imap.filter.command over a generated shell script",
        "TLC 1.8.0, CommunityModules Json reader",
    ]
    # the generic finish() prints KNOWN-FINDING lines for known_seen; extensions print EXT-FINDING (above)
    ctx.cov["ext_findings_seen"] = [k for k, _ in ctx.known_seen]
    ctx.known_seen = []


META = {
    "engine": "localstorecheck",
    "level": "model_checking",
    "technique": "TLA+ spec LocalStore.tla model-checked by TLC; TLC-generated behaviours (envelopes, filter "
                 "answers, store faults, account removal/creation, endings) replayed on the real imapsql storage "
                 "over sqlite; mailbox content read back through the IMAP backend after every call; recorded "
                 "traces validated against LocalStoreTrace.tla (property predicates in LocalStoreObs.tla)",
    "statement": "For every envelope handed to the IMAP storage as a delivery target (1..3 recipients: duplicates, "
                 "letter-case, Unicode-width and A-label/U-label spellings of one account, aliases of the "
                 "delivery_map, unknown, malformed and unresolvable addresses; quarantined or not), every "
                 "configured delivery_normalize function, with or without delivery_map, every answer of up to two "
                 "IMAP filters per account (folder, flags, failure), every history of message-store write "
                 "failures, account removal and account auto-creation between the calls, and every ending "
                 "(Commit, Abort before or after Body, failed Body then Abort): after a successful Commit every "
                 "accepted account holds exactly one new message - in INBOX, or in the folder the first filter "
                 "that named one selected, or (quarantined, filters not consulted) in the account's \\Junk "
                 "special-use mailbox, else junk_mailbox - carrying the flags the filters added and exactly the "
                 "header and body handed in, preceded by Delivered-To of the account and Return-Path of the "
                 "sender (from the code); spellings that the configured normalization (account names being "
                 "case-insensitive) maps to one account get ONE copy; an address without an account is refused "
                 "at AddRcpt with a permanent 5xx status and does not affect the others, a failing delivery_map "
                 "lookup is not reported as a non-existent user (from the code); a failing filter never fails "
                 "the delivery, a failing store write always does; nothing of the message is visible in any "
                 "mailbox before Commit; after Abort no mailbox holds any part of it and the message store "
                 "keeps no blob of it (from the code); messages committed earlier are never disturbed.",
    "text": "TLC visits every behaviour of LocalStore.tla inside the bound (quick: 7 address kinds x 2 "
            "normalizations x delivery_map x 0/1 filter x junk layouts, lists <= 2; thorough: 12 address kinds x "
            "4 normalizations, two filters, lists <= 3, two messages) and checks the X05 predicates in every "
            "state; the same predicates are evaluated by TLC over traces recorded from the real storage driven "
            "with TLC-generated behaviours (7 exhaustive directed families, sampled in quick, plus seeded "
            "simulation over all dimensions).",
    "note": "sqlite3 + fs message store only; single delivery at a time; trusted: TLC, the harness (mailboxes are "
            "read back through go-imap-sql's own backend API), Go toolchain.",
    "design_ref": "extensions/X05.md",
}
