"""C06 - check verdicts are always enforced and every check sees every stage once.

(T) TLC checks CheckRunner.tla exhaustively: every placement of the checks on the global /
    source / destination blocks (the same check in several blocks included), every verdict
    table inside the bound, every routing of 1-3 recipients, both body paths, the DMARC
    quarantine action, and every completion order of the parallel check calls; the C06
    predicates (CheckRunnerObs.tla) are evaluated in every state.
(B) TLC-generated behaviours (configuration + completion order) are replayed on the real
    msgpipeline.MsgPipeline built by msgpipeline.New from configuration text, with scripted
    checks/targets registered as maddy modules and the completion order of the check
    goroutines forced inside a testing/synctest bubble; the recorded traces are validated
    against CheckRunnerTrace.tla and the same predicates are evaluated by TLC after every
    recorded event.
"""
import json
import os
from concurrent.futures import ThreadPoolExecutor

import vlib

KEEP = {"Cfg", "Cmd", "CheckCall", "ModCall", "TgtCall", "Ret", "End"}
ALL_DEVS = ["NABody", "BodyPerScope", "ReplayRejectLeaks", "DupAfterReject"]
DMARCS = ("off", "none", "quar", "rej")
# how the DMARC policy is published (opaque to CheckRunner.tla; harness/checkrunnercheck/dims_test.go)
VIAS = ("p", "psp", "sp", "suborg", "subown", "upper")
CH4 = ["c1", "c2", "c3", "c4"]
STAGES = ["conn", "sender", "rcpt", "body"]

CFG = """SPECIFICATION %(spec)s
CONSTANTS
  NChecks = %(n)d
  MaxRcpts = %(maxr)d
  MaxNonNone = %(nn)d
  MaxScopes = %(scopes)d
  Dmarcs = {%(dmarcs)s}
  Vias = {%(vias)s}
  EarlyOn = %(early)s
  DupOn = %(dup)s
  ExtraV = {%(extrav)s}
  Only1On = %(only1)s
  WithRemote = %(remote)s
  Froms = {%(froms)s}
  Kinds = {%(kinds)s}
  ModOn = %(modon)s
  Lazy = %(lazy)s
  Devs = {%(devs)s}
  Gen = %(gen)s
  MaxDelay = %(maxdelay)d
%(tail)s
"""

MC_TAIL = "VIEW View\nINVARIANTS NoViolation NoDevs TypeOK Closed\n"
ASIS_TAIL = "VIEW View\nINVARIANTS NoViolation\n"
GEN_TAIL = "CHECK_DEADLOCK FALSE\n"
TRACE_TAIL = "CHECK_DEADLOCK FALSE\nPOSTCONDITION Post\n"


def B(x):
    return "TRUE" if x else "FALSE"


def cfg(n, maxr, nn, scopes, dmarcs=("off",), only1=False, devs=(), gen=False, lazy=True,
        remote=True, maxdelay=2, tail=MC_TAIL, spec="Spec", kinds=("pipe",), modon=False, extrav=("rq",), froms=("addr",),
        vias=("p",), early=False, dup=False):
    return CFG % dict(spec=spec, n=n, maxr=maxr, nn=nn, scopes=scopes,
                      dmarcs=", ".join('"%s"' % d for d in dmarcs), only1=B(only1),
                      vias=", ".join('"%s"' % d for d in vias), early=B(early), dup=B(dup),
                      remote=B(remote), lazy=B(lazy), kinds=", ".join('"%s"' % x for x in kinds), modon=B(modon),
                      extrav=", ".join('"%s"' % x for x in extrav), froms=", ".join('"%s"' % x for x in froms),
                      devs=", ".join('"%s"' % d for d in devs), gen=B(gen), maxdelay=maxdelay,
                      tail=tail)


# exhaustive design runs: (name, kwargs)
MC_QUICK = [
    ("mc2", dict(n=2, maxr=2, nn=2, scopes=2, dmarcs=("off",), only1=False, extrav=())),
    ("mc1", dict(n=1, maxr=3, nn=2, scopes=4, dmarcs=("off", "quar"), only1=True)),
    ("mc3", dict(n=3, maxr=2, nn=2, scopes=1, dmarcs=("off",), only1=False, extrav=())),
    # two checks with the raw combined result Reject && Quarantine in the alphabet
    ("mc2rq", dict(n=2, maxr=1, nn=2, scopes=2, dmarcs=("off",), only1=False)),
    # destination blocks with a recipient modifier that fails for one recipient
    ("mcmod", dict(n=1, maxr=3, nn=2, scopes=4, modon=True)),
    # the real remote target behind destination block D1
    ("mcrp", dict(n=1, maxr=2, nn=2, scopes=4, dmarcs=("off", "quar"), kinds=("rpipe",))),
    # the real queue behind destination block D1, handing the message on after Commit
    ("mcqp", dict(n=1, maxr=2, nn=2, scopes=4, dmarcs=("off", "quar"), kinds=("qpipe",))),
    # the connection-time entry (RunEarlyChecks) with two checks of which any subset has the hook
    ("mcearly", dict(n=2, maxr=1, nn=1, scopes=1, early=True, remote=False, extrav=())),
    # repeated RCPT addresses, every DMARC action (none / quarantine / reject)
    ("mcdup", dict(n=1, maxr=3, nn=1, scopes=2, dmarcs=DMARCS, only1=True, dup=True, remote=False, extrav=())),
]
MC_THOROUGH = [
    ("mc1full", dict(n=1, maxr=3, nn=4, scopes=4, dmarcs=("off", "quar"), only1=True)),
    ("mc2", dict(n=2, maxr=3, nn=2, scopes=4, dmarcs=("off", "quar"), only1=True)),
    ("mc3", dict(n=3, maxr=2, nn=2, scopes=2, dmarcs=("off",), only1=False)),
    ("mc4", dict(n=4, maxr=2, nn=1, scopes=2, dmarcs=("off",), only1=False)),
    ("mcmod", dict(n=2, maxr=2, nn=2, scopes=2, modon=True)),
    ("mcmod1", dict(n=1, maxr=3, nn=2, scopes=4, modon=True)),
    ("mcrp", dict(n=2, maxr=2, nn=2, scopes=2, dmarcs=("off", "quar"), kinds=("rpipe",))),
    ("mcqp", dict(n=2, maxr=2, nn=2, scopes=2, dmarcs=("off", "quar"), kinds=("qpipe",))),
    ("mcearly", dict(n=3, maxr=1, nn=1, scopes=2, early=True, remote=False, extrav=())),
    ("mcdup", dict(n=2, maxr=2, nn=2, scopes=1, dmarcs=("off", "rej"), only1=True, dup=True, early=True, remote=False,
                   extrav=())),
    ("mcdup1", dict(n=1, maxr=3, nn=2, scopes=4, dmarcs=DMARCS, only1=True, dup=True, remote=False)),
]


def load_findings():
    """known_findings.d/C06.json (VERIF_KNOWN_D = other directory, VERIF_KNOWN_C06 = other file: drills)."""
    p = os.environ.get("VERIF_KNOWN_C06")
    if p:
        return [f for f in json.load(open(p)).get("findings", []) if f.get("property") == "C06"]
    import vknown
    return vknown.entries("C06")


def norm_cfg(c):
    place = {k: sorted(c.get("place", {}).get(k, []) or []) for k in CH4}
    verd = {}
    for k in CH4:
        row = (c.get("verd", {}) or {}).get(k, {}) or {}
        verd[k] = {s: (row.get(s, "none") if row.get(s, "none") != "?" else "none") for s in STAGES}
        if not place[k]:
            verd[k] = {s: "none" for s in STAGES}
    only1 = sorted(k for k in (c.get("only1") or []) if verd[k]["rcpt"] != "none")
    route = list(c.get("route") or [])
    dupof = [int(x) for x in (c.get("dupof") or [])][:len(route)]
    dupof += [0] * (len(route) - len(dupof))
    dmarc = c.get("dmarc") if c.get("dmarc") in DMARCS else "off"
    early = sorted(k for k in (c.get("early") or []) if "G" in place.get(k, []))
    return {"place": place, "verd": verd, "only1": only1, "route": route, "dupof": dupof,
            "path": c.get("path") if c.get("path") in ("atomic", "na") else "atomic",
            "dmarc": dmarc,
            "dmvia": "-" if dmarc == "off" else (c.get("dmvia") if c.get("dmvia") in VIAS else "p"),
            "early": early, "everd": sorted(k for k in (c.get("everd") or []) if k in early),
            "eon": bool(c.get("eon")),
            "kind": c.get("kind", "pipe"),
            "mod": "on" if c.get("mod") == "on" else "off",
            "mfail": sorted(c.get("mfail") or []),
            "from": "null" if c.get("from") == "null" else "addr",
            "nafin": "abort" if c.get("nafin") == "abort" else "commit"}


def behaviours_from(r):
    out = []
    for tag, val in r["printed"]:
        if tag == "BEH":
            c = norm_cfg(val["cfg"])
            out.append({"cfg": c, "calls": [x for x in val.get("calls", []) if x.get("a") == "call"]})
    return out


def dedup(behs):
    seen, out = set(), []
    for b in behs:
        k = json.dumps([b["cfg"], b["calls"]], sort_keys=True)
        if k not in seen:
            seen.add(k)
            out.append(b)
    for i, b in enumerate(out):
        b["id"] = i + 1
    return out


def nontrivial(b):
    c = b["cfg"]
    return c["dmarc"] != "off" or bool(c["everd"]) or any(c["dupof"]) or \
        any(v != "none" for k in CH4 for v in c["verd"][k].values())


def gen_job(ctx, name, kw, simulate=None, depth=None, timeout=900, workers=4):
    g = ctx.tlc("CheckRunner", None, name=name, workers=1 if simulate else workers, timeout=timeout,
                simulate=simulate, depth=depth, cfg_text=cfg(gen=True, tail=GEN_TAIL, **kw))
    if not g["ok"]:
        raise vlib.Infra("behaviour generation %s failed: %s %s (see %s/tlc.out)" % (
            name, g["invariant"], g["error"], g["dir"]))
    return behaviours_from(g)


def mc_job(ctx, name, kw, workers, timeout):
    r = ctx.tlc_expect_ok("CheckRunner", None, name=name, workers=workers, timeout=timeout, cfg_text=cfg(**kw))
    ctx.log("TLC exhaustive %s: %d distinct states, %d transitions, depth %d, %.1fs" % (
        name, r["distinct"], r["generated"], r["depth"], r["wall"]))
    return dict(kw, name=name, states=r["distinct"], transitions=r["generated"], depth=r["depth"],
                wall_s=round(r["wall"], 1))


def asis_job(ctx, d):
    ra = ctx.tlc("CheckRunner", None, name="asis-" + d, workers=2, timeout=600,
                 cfg_text=cfg(n=1, maxr=2, nn=1, scopes=2, only1=True, devs=[d], tail=ASIS_TAIL,
                              dup=(d == "DupAfterReject")))
    if ra["invariant"] != "NoViolation":
        raise vlib.Infra("as-is model (%s) does not violate NoViolation: the invariant is vacuous "
                         "(see %s/tlc.out)" % (d, ra["dir"]))
    return d


AGAIN_OFFSET = 4000000      # harness/checkrunnercheck: trace number of the second message of a behaviour

# quick tier: gen-early is replayed completely, gen-dm as a seeded sample, gen-dup: every behaviour with a
# repeated address plus a seeded few of the others
NEW_QUICK = {"dmarc": 210, "withdup": 100000, "nodup": 30, "again": 160}
NEW_THOROUGH = {"early": 3000, "withdup": 4000, "nodup": 400}

HOOK_KEEP = {"Cfg", "Cmd", "CheckCall", "TgtCall", "Ret", "End"}


def convert_repo_trace(evs):
    """One message recorded by the hooks of internal/msgpipeline -> (events in the vocabulary of
    CheckRunnerTrace.tla, None) or (None, reason it is outside the model's alphabet)."""
    begin = next((e for e in evs if e["e"] == "Begin"), None)
    if begin is None or evs[0]["e"] != "Begin":
        return None, "no defined start"
    if begin.get("dmarc"):
        return None, "dmarc enabled (auth-result driven policy is C07's)"
    if begin.get("quarantined"):
        return None, "message already flagged at Start"
    srcs = [e for e in evs if e["e"] == "Src"]
    routes = [e for e in evs if e["e"] == "Route"]
    has_mods = bool(begin.get("mods") or any(e.get("mods") for e in srcs + routes))
    if any(e.get("reject") for e in srcs + routes):
        return None, "reject directive in the selected block"
    if any(e["e"] == "CheckInitErr" for e in evs):
        return None, "check state initialisation failed"
    if any(e["e"] == "TgtCall" and e["res"] != "ok" for e in evs):
        return None, "target failure"
    end = next((i for i, e in enumerate(evs) if e["e"] == "End"), len(evs))
    evs = evs[:end]
    # a refusal that is routing's business (C04), not a check's: the sender was refused before a source
    # block was selected, or a recipient before a destination block was, and no check said reject
    cmd_rej, cmd_routed, n = {}, {}, 0
    for e in evs:
        if e["e"] == "Cmd":
            n += 1
        elif e["e"] == "CheckCall" and e["v"] == "reject":
            cmd_rej[n] = True
        elif e["e"] == "Route":
            cmd_routed[n] = True
        elif e["e"] == "Ret" and e["res"] != "ok" and not cmd_rej.get(n):
            if e["op"] == "start" and not any(x.get("selected") for x in srcs):
                return None, "sender refused by routing (reject directive or invalid address)"
            if e["op"] == "rcpt" and not cmd_routed.get(n):
                return None, "recipient refused by routing (invalid address)"
            if has_mods:
                return None, "command refused by a modifier"
    # modifiers that neither fail nor rewrite a recipient are invisible at the observed boundaries
    rcpts_given = set(e["r"] for e in evs if e["e"] == "Cmd" and e["op"] == "rcpt")
    if has_mods and (any(e["eff"] != e["r"] for e in routes) or
                     any(e["e"] == "TgtCall" and e["op"] == "rcpt" and e["arg"] not in rcpts_given for e in evs)):
        return None, "modifiers rewrite a recipient"
    # blocks, checks, targets, recipients in order of first appearance
    blocks, tgt_of = [], {}
    for e in routes:
        if e["blk"] not in blocks:
            blocks.append(e["blk"])
            if len(e["targets"]) != 1:
                return None, "destination block with %d targets" % len(e["targets"])
            tgt_of[e["blk"]] = e["targets"][0]
    if len(blocks) > 2:
        return None, "more than 2 destination blocks"
    if len(set(tgt_of.values())) != len(tgt_of):
        return None, "one target shared by two destination blocks"
    bname = {b: "D%d" % (i + 1) for i, b in enumerate(blocks)}
    tname = {tgt_of[b]: "T%d" % (i + 1) for i, b in enumerate(blocks)}
    scopes = [("G", begin["checks"])] + [("S", e["checks"]) for e in srcs[:1]]
    seen_b = set()
    for e in routes:
        if e["blk"] not in seen_b:
            seen_b.add(e["blk"])
            scopes.append((bname[e["blk"]], e["checks"]))
    cname, place = {}, {}
    for sc, lst in scopes:
        if len(set(lst)) != len(lst):
            return None, "a check listed twice in one block"
        for c in lst:
            if c not in cname:
                cname[c] = "c%d" % (len(cname) + 1)
            place.setdefault(cname[c], []).append(sc)
    if len(cname) > 4:
        return None, "more than 4 checks"
    rname, order = {}, []
    for e in evs:
        if e["e"] == "Cmd" and e["op"] == "rcpt":
            if e["r"] in rname:
                return None, "a recipient supplied twice"
            rname[e["r"]] = "r%d" % (len(rname) + 1)
            order.append(e["r"])
    if len(rname) > 3:
        return None, "more than 3 recipients"
    if any(e["eff"] != e["r"] for e in routes):
        return None, "rewritten recipient"
    route_of = {e["r"]: bname[e["blk"]] for e in routes}
    route = [route_of.get(r, "D1") for r in order]      # refused before routing: the block does not matter
    # verdict table: what each check answered per stage
    verd = {k: {st: "none" for st in STAGES} for k in CH4}
    per_rcpt = {}
    for e in evs:
        if e["e"] != "CheckCall":
            continue
        if e["c"] not in cname:
            return None, "call on a check that is in no visited block"
        k = cname[e["c"]]
        if e.get("authres") or e.get("hdr"):
            pass        # header fields / auth results added by checks are not modelled; verdicts are
        if e["stage"] == "rcpt":
            if e["arg"] not in rname:
                return None, "check shown an address that is no recipient of the message"
            per_rcpt.setdefault(k, {})[rname[e["arg"]]] = e["v"]
        else:
            if verd[k][e["stage"]] not in ("none", e["v"]) or \
                    (verd[k][e["stage"]] == "none" and e["v"] != "none" and
                     any(x["e"] == "CheckCall" and cname.get(x["c"]) == k and x["stage"] == e["stage"] and
                         x["v"] == "none" and x["seq"] < e["seq"] for x in evs)):
                return None, "verdict of a check is not a function of the stage"
            verd[k][e["stage"]] = e["v"]
    only1 = []
    for k, m in per_rcpt.items():
        vals = set(m.values())
        if len(vals) == 1:
            verd[k]["rcpt"] = vals.pop()
        elif m.get("r1", "none") != "none" and all(v == "none" for r, v in m.items() if r != "r1"):
            verd[k]["rcpt"] = m["r1"]
            only1.append(k)
        else:
            return None, "recipient-stage verdicts outside the model (differ per recipient)"
    na = any(e["e"] == "Cmd" and e["op"] == "bodyNA" for e in evs)
    nafin = "abort" if any(e["e"] == "Cmd" and e["op"] == "abort" for e in evs) else "commit"
    cfg_ev = {"e": "Cfg", "seq": 0, "place": {k: sorted(place.get(k, [])) for k in CH4}, "verd": verd,
              "only1": sorted(only1), "route": route, "path": "na" if na else "atomic", "dmarc": "off",
              "kind": "pipe", "mod": "off", "mfail": [], "nafin": nafin,
              "dupof": [0] * len(route), "dmvia": "-", "early": [], "everd": [], "eon": False}
    out = [cfg_ev]
    for e in evs:
        n = {"seq": e["seq"], "e": e["e"]}
        if e["e"] == "Cmd":
            n["op"] = "body" if e["op"] == "bodyNA" else e["op"]
            n["r"] = rname.get(e["r"], "")
        elif e["e"] == "Ret":
            n["op"] = "body" if e["op"] == "bodyNA" else e["op"]
            n["r"], n["res"] = rname.get(e["r"], ""), e["res"]
        elif e["e"] == "CheckCall":
            n.update(c=cname[e["c"]], stage=e["stage"], arg=rname.get(e["arg"], ""), v=e["v"], cmd=e["cmd"])
        elif e["e"] == "TgtCall":
            if e["tgt"] not in tname:
                return None, "call on a target of no visited block"
            n.update(tgt=tname[e["tgt"]], op=e["op"], arg=rname.get(e["arg"], ""), res=e["res"], q=e["q"])
        else:
            continue
        out.append(n)
    out.append({"seq": (evs[-1]["seq"] if evs else 0) + 1, "e": "End"})
    return out, None


def repo_test_traces(ctx):
    """The other direction of the binding: run the REPOSITORY'S OWN tests of internal/msgpipeline, unchanged,
    with the trace hooks compiled in (build tag verif; verif_trace.go / verif_trace_test.go) and validate every
    message the tests push through a pipeline against CheckRunner.tla (CheckRunnerHookTrace.tla): the tests'
    own assertions are whatever they are, the C06 predicates are evaluated at every step of what the tests made
    the pipeline do."""
    import subprocess
    d = ctx.sub("repotests")
    raw = os.path.join(d, "raw.ndjson")
    tmp = os.path.join(d, "tmp")
    os.makedirs(tmp, exist_ok=True)
    env = vlib.goenv()
    env.update(VERIF_TRACE_OUT=raw, TMPDIR=tmp)
    p = subprocess.run(["timeout", "600", "go", "test", "-tags", "verif", "-count=1", "-v", "./internal/msgpipeline/"],
                       cwd=ctx.repo, env=env, stdout=subprocess.PIPE, stderr=subprocess.STDOUT, text=True)
    if not os.path.exists(raw) or os.path.getsize(raw) == 0:
        raise vlib.Infra("the repository's msgpipeline tests recorded nothing with the hooks on (rc=%d): %s" % (
            p.returncode, p.stdout[-1500:]))
    tests_run = sum(1 for l in p.stdout.splitlines() if l.startswith("=== RUN"))
    by_key = {}
    for line in open(raw):
        e = json.loads(line)
        by_key.setdefault(e["key"], []).append(e)
    events, info, skipped = [], {}, {}
    for k, key in enumerate(sorted(by_key, key=lambda x: by_key[x][0]["seq"])):
        evs = sorted(by_key[key], key=lambda e: e["seq"])
        out, why = convert_repo_trace(evs)
        if out is None:
            skipped[why] = skipped.get(why, 0) + 1
            continue
        t = 3000000 + k
        for e in out:
            e["t"] = t
        events += out
        info[t] = {"message": key, "events": out, "raw": evs}
    if not events:
        raise vlib.Infra("no usable trace from the repository's msgpipeline tests (skipped: %s)" % skipped)
    # binding self-test: a trace with one corrupted field must not be accepted
    st_t = None
    for t, i in info.items():
        if any(e["e"] == "CheckCall" and e["v"] == "none" and e["stage"] == "sender" for e in i["events"]) and \
                any(e["e"] == "TgtCall" and e["op"] == "commit" for e in i["events"]):
            bad = [dict(e, t=3900001) for e in i["events"]]
            next(e for e in bad if e["e"] == "CheckCall" and e["stage"] == "sender")["v"] = "reject"
            events += bad
            st_t = 3900001
            break
    verdicts, by_t = ctx.validate(
        "CheckRunnerHookTrace", None, events, keep=HOOK_KEEP, name="repotests-trace",
        cfg_text=cfg(n=4, maxr=3, nn=0, scopes=4, dmarcs=DMARCS, only1=True, devs=[],
                     maxdelay=0, tail=TRACE_TAIL, spec="HSpec", kinds=("pipe", "rpipe", "qpipe"), modon=True,
                     extrav=("rq", "rqp"), vias=VIAS, early=True, dup=True))
    ok = drift = nviol = 0
    for t, recs in sorted(verdicts.items()):
        if t == st_t:
            if any(not r["drift"] for r in recs) and not any(r["viol"] for r in recs):
                raise vlib.Infra("binding self-test failed: a corrupted repo-test trace was accepted")
            continue
        viol = sorted(set(v for r in recs for v in r["viol"]))
        if viol:
            nviol += 1
            ctx.violation("the repository's own msgpipeline tests make the pipeline violate %s (message %s)" % (
                ",".join(viol), info[t]["message"]),
                {"property": "C06", "repotest": info[t], "violated": viol,
                 "how": "bin/check C06 --replay <this file> (re-runs the package's tests with the hooks on)"})
        elif any(not r["drift"] for r in recs):
            ok += 1
        else:
            drift += 1
            print("DRIFT property=C06 repo-test trace %s (%s) first-unexplained-seq=%s" % (
                t, info[t]["message"], recs[0]["driftAt"]))
    ctx.cov["repo_test_traces"] = {
        "tests_run": tests_run, "go_test_rc": p.returncode,      # a failing test is not our verdict
        "messages": len(by_key), "events": sum(len(v) for v in by_key.values()),
        "validated": ok, "drift": drift, "violating": nviol,
        "skipped": sum(skipped.values()), "skipped_reasons": skipped,
        "with_checks": sum(1 for i in info.values() if any(e["e"] == "CheckCall" for e in i["events"])),
        "binding_selftest": "corrupted-field trace rejected" if st_t else "no suitable trace",
    }
    if skipped:
        print("SKIPPED property=C06 repo-test traces outside the model's alphabet: " +
              "; ".join("%d x %s" % (n, w) for w, n in sorted(skipped.items())))
    return ok


def run(ctx, replay):
    if replay and "repotest" in json.load(open(replay)):
        repo_test_traces(ctx)
        return
    thorough = ctx.tier == "thorough"
    findings = load_findings()
    open_f = {f["match"]["deviation"]: f for f in findings if f.get("status", "open") == "open"}
    open_devs = sorted(open_f)
    ctx.cov["open_deviations"] = open_devs

    # several TLC JVMs run side by side: bound their heaps (the java launcher reads JDK_JAVA_OPTIONS)
    os.environ.setdefault("JDK_JAVA_OPTIONS", "-Xmx6g" if thorough else "-Xmx2500m")
    pool = ThreadPoolExecutor(max_workers=4 if thorough else 6)
    build = pool.submit(ctx.build_harness, "checkrunnercheck")
    if replay:
        obj = json.load(open(replay))
        behs = [obj["behaviour"]]
        behs[0]["id"] = 1
    else:
        # ---- (B) behaviours out of TLC (jobs run next to the exhaustive runs) ----------
        sim = dict(n=4 if thorough else 3, maxr=3, nn=3 if thorough else 2, dmarcs=DMARCS, only1=True,
                   devs=open_devs, lazy=False, remote=False, maxdelay=2, modon=True, extrav=("rq", "rqp"),
                   froms=("addr", "null"), vias=VIAS, early=True, dup=True)
        n_sim = 2000 if thorough else 260
        gens = [
            # small scopes, every behaviour (all completion orders within the delay bound):
            # one check anywhere, a failing recipient modifier in the destination blocks
            pool.submit(gen_job, ctx, "gen-s1", dict(n=1, maxr=2, nn=1, scopes=2, only1=True, devs=open_devs,
                                                     remote=False, maxdelay=1, modon=True,
                                                     extrav=("rq", "rqp"), froms=("addr", "null"))),
            # no shared checks / any placement
            pool.submit(gen_job, ctx, "gen-sim1", dict(sim, scopes=1), simulate=n_sim, depth=300),
            pool.submit(gen_job, ctx, "gen-sim4", dict(sim, scopes=4), simulate=n_sim, depth=300),
            # the remote-target scenario (no placement at all: only the remote configuration is left)
            pool.submit(gen_job, ctx, "gen-remote", dict(n=1, maxr=1, nn=0, scopes=0, remote=True)),
            # the real remote target behind the pipeline, both body paths, quarantine by a check or DMARC
            pool.submit(gen_job, ctx, "gen-rpipe", dict(n=1, maxr=2, nn=1, scopes=2, dmarcs=("off", "quar"),
                                                        devs=open_devs, remote=False, maxdelay=1,
                                                        kinds=("rpipe",))),
            # the real queue behind the pipeline: what it hands to its own target after Commit
            pool.submit(gen_job, ctx, "gen-qpipe", dict(n=1, maxr=2, nn=1, scopes=2, dmarcs=("off", "quar"),
                                                        devs=open_devs, remote=False, maxdelay=1,
                                                        kinds=("qpipe",))),
        ]
        # the new dimensions on small scopes, every behaviour:
        # - the connection-time entry: two checks, any subset of those in the global block hooked, any of them refusing
        # - every DMARC action x every way of publishing it, next to one verdict of one check, both body paths
        # - repeated RCPT addresses (r1 r1 / r1 r2 r1 / ...), one verdict, both body paths
        NEW0 = len(gens)
        gens += [
            pool.submit(gen_job, ctx, "gen-early", dict(n=2, maxr=1, nn=1 if thorough else 0, scopes=2 if thorough else 1,
                                                        devs=open_devs, remote=False, maxdelay=1, early=True, extrav=())),
            pool.submit(gen_job, ctx, "gen-dm", dict(n=1, maxr=1, nn=1, scopes=1, dmarcs=DMARCS[1:], vias=VIAS,
                                                     devs=open_devs, remote=False, maxdelay=0, extrav=())),
            pool.submit(gen_job, ctx, "gen-dup", dict(n=1, maxr=3 if thorough else 2, nn=1, scopes=2, only1=True, dup=True,
                                                      devs=open_devs, remote=False, maxdelay=0, extrav=(),
                                                      modon=thorough)),
        ]
        if thorough:
            gens += [
                pool.submit(gen_job, ctx, "gen-s2", dict(n=1, maxr=2, nn=2, scopes=4, dmarcs=("off", "quar"),
                                                         only1=True, devs=open_devs, remote=False, maxdelay=1)),
                pool.submit(gen_job, ctx, "gen-s3", dict(n=2, maxr=2, nn=1, scopes=1, devs=open_devs,
                                                         remote=False, maxdelay=2)),
                pool.submit(gen_job, ctx, "gen-rpipe2", dict(n=1, maxr=2, nn=2, scopes=4, dmarcs=("off", "quar"),
                                                             devs=open_devs, remote=False, maxdelay=1,
                                                             kinds=("rpipe",))),
            ]
        # ---- (T) exhaustive model checking of the design ------------------------------
        mcs = [pool.submit(mc_job, ctx, name, kw, 8 if thorough else 6, 3000 if thorough else 1500)
               for name, kw in (MC_THOROUGH if thorough else MC_QUICK)]
        # every named deviation must be caught by the same invariant (non-vacuity)
        asis = [pool.submit(asis_job, ctx, d) for d in ALL_DEVS]
        runs = [f.result() for f in mcs]
        ctx.cov["states"] = sum(r["states"] for r in runs)
        ctx.cov["transitions"] = sum(r["transitions"] for r in runs)
        ctx.cov["model_depth"] = max(r["depth"] for r in runs)
        ctx.cov["mc_runs"] = runs
        ctx.cov["asis_counterexamples_found"] = [f.result() for f in asis]
        behs = []
        S2 = NEW0 + 3       # gen-s2 (thorough)
        new_n = {}
        for i, f in enumerate(gens):
            got = f.result()
            if i == S2:     # the widest small scope is sampled (seeded); the others are replayed completely
                got = vlib.sample(ctx.rng, got, 4000)
            if i == 0 and not thorough:
                got = vlib.sample(ctx.rng, got, 1200)
            if i in (4, 5) and not thorough:
                got = vlib.sample(ctx.rng, got, 450)
            if NEW0 <= i < NEW0 + 3:
                dim = ("early", "dmarc", "dup")[i - NEW0]
                new_n[dim] = len(got)
                cap = NEW_THOROUGH if thorough else NEW_QUICK
                if dim in cap:
                    got = vlib.sample(ctx.rng, got, cap[dim])
                if dim == "dup":
                    # the behaviours that repeat an address (quick: all of them); of the others (ordinary flows) a
                    # seeded few
                    got = vlib.sample(ctx.rng, [b for b in got if any(b["cfg"]["dupof"])], cap["withdup"]) + \
                        vlib.sample(ctx.rng, [b for b in got if not any(b["cfg"]["dupof"])], cap["nodup"])
            behs += got
        ctx.cov["new_dimension_behaviours"] = new_n
        ctx.cov["exhaustive_small_scope_behaviours"] = len(gens[0].result()) + \
            sum(len(f.result()) for f in gens[4:])
        ctx.cov["remote_behind_pipeline_behaviours"] = len(gens[4].result())
        ctx.cov["queue_behind_pipeline_behaviours"] = len(gens[5].result())
        behs = dedup(behs)
        if not behs:
            raise vlib.Infra("TLC produced no behaviours")
        # a second message on the same pipeline object (harness-only dimension: messages are independent in the
        # model, the second trace is validated like any other) for a seeded part of the behaviours
        for b in vlib.sample(ctx.rng, [b for b in behs if b["cfg"]["kind"] == "pipe"], 2500 if thorough else NEW_QUICK["again"]):
            b["again"] = True
    ctx.log("%d behaviours to replay" % len(behs))

    # ---- replay on the real pipeline -----------------------------------------
    binary = build.result()
    pool.shutdown()
    events = ctx.run_shards(binary, behs)
    by_id = {b["id"]: b for b in behs}
    by_id.update({b["id"] + AGAIN_OFFSET: b for b in behs if b.get("again")})
    ctx.cov["second_message_on_same_pipeline_traces"] = sum(1 for b in behs if b.get("again"))

    # observations that are reported, never a verdict (stricter readings)
    use_after_close = sum(1 for e in events if e["e"] == "CheckCall" and e.get("afterClose"))
    double_close = sum(1 for e in events if e["e"] == "CheckClose" and e.get("again"))

    # binding self-test: a corrupted and a truncated copy of an accepted trace
    selftest = {}
    if not replay:
        base = None
        for b in behs:
            evs = [e for e in events if e["t"] == b["id"] and e["e"] in KEEP]
            if b["cfg"]["kind"] == "pipe" and b["cfg"]["path"] == "atomic" and \
                    any(e["e"] == "TgtCall" and e["op"] == "commit" for e in evs) and \
                    any(e["e"] == "CheckCall" and e["v"] == "none" and e["stage"] == "sender" for e in evs) and \
                    not any(e["e"] == "CheckCall" and e["v"] != "none" for e in evs):
                base = evs
                break
        if base:
            c1 = [dict(e, t=900001) for e in base]
            for e in c1:
                if e["e"] == "CheckCall" and e["stage"] == "sender":
                    e["v"] = "reject"      # corrupt one logged field
                    break
            c2 = [dict(e, t=900002) for e in base]
            k = next(i for i, e in enumerate(c2) if e["e"] == "TgtCall" and e["op"] == "rcpt")
            del c2[k]                      # drop one event
            events = events + c1 + c2
            selftest = {900001: "corrupt-field", 900002: "drop-event"}

    verdicts, by_t = ctx.validate(
        "CheckRunnerTrace", None, events, keep=KEEP, batch=1200,
        cfg_text=cfg(n=4, maxr=3, nn=0, scopes=4, dmarcs=DMARCS, only1=True, devs=open_devs,
                     maxdelay=0, tail=TRACE_TAIL, spec="TSpec", kinds=("pipe", "rpipe", "qpipe"), modon=True,
                     extrav=("rq", "rqp"), vias=VIAS, early=True, dup=True))

    ok = drift = extra = 0
    preds, known_n = {}, {}
    for t, recs in sorted(verdicts.items()):
        if t in selftest:
            accepted = any(not r["drift"] for r in recs) and not any(r["viol"] for r in recs)
            if accepted:
                raise vlib.Infra("binding self-test failed: %s trace was accepted" % selftest[t])
            continue
        viol = sorted(set(v for r in recs for v in r["viol"]))
        conf = [r for r in recs if not r["drift"]]
        taken = sorted(set(d for r in conf for d in r.get("devs", [])))
        if any(r.get("extra") for r in recs):
            extra += 1
        if viol:
            for v in viol:
                preds[v] = preds.get(v, 0) + 1
            allowed = set(p for d in taken if d in open_f for p in open_f[d]["match"].get("predicates", []))
            if conf and taken and all(d in open_f for d in taken) and set(viol) <= allowed:
                # explained step by step by the as-is model taking only open, listed deviations
                for d in taken:
                    f = open_f[d]
                    ctx.known(f["id"], f["what"])
                    known_n[f["id"]] = known_n.get(f["id"], 0) + 1
                continue
            what = "pipeline behaviour violates " + ",".join(viol)
            if taken:
                what += " (deviations taken: %s)" % ",".join(taken)
            ctx.violation(what, {"property": "C06", "behaviour": by_id[t], "trace": by_t[t],
                                 "violated": viol, "how": "bin/check C06 --replay <this file>"})
        elif conf:
            ok += 1
        else:
            drift += 1
            print("DRIFT property=C06 trace=%d first-unexplained-seq=%s" % (t, recs[0]["driftAt"]))
    if selftest:
        ctx.cov["binding_selftest"] = "corrupted-field and dropped-event traces rejected"
    if extra:
        print("OBSERVATION property=C06 %d trace(s): a lazily created check state was shown a recipient "
              "outside its scope (not counted, DESIGN 2.5)" % extra)
    if use_after_close or double_close:
        print("OBSERVATION property=C06 check states closed by a failed checkStates and used again: "
              "%d call(s) after Close, %d repeated Close" % (use_after_close, double_close))
    ctx.cov["traces_validated_against_impl"] = ok
    if not replay:
        ctx.cov["traces_validated_against_impl"] += repo_test_traces(ctx)
    ctx.cov["drift_traces"] = drift
    ctx.cov["known_finding_traces"] = known_n
    ctx.cov["observations"] = {"out_of_scope_rcpt_traces": extra, "calls_after_close": use_after_close,
                               "repeated_close": double_close}
    ctx.cov["evaluations"] = len(behs)
    ctx.cov["distinct_nontrivial"] = sum(1 for b in behs if nontrivial(b))
    ctx.cov["rule"] = ("behaviours = complete behaviours of CheckRunner.tla printed by TLC: every behaviour of small "
                       "scopes (1 check, <=2 recipients, <=1 non-none verdict, destination modifiers failing for at "
                       "most one recipient - sampled to 1200 in quick; the real remote target, and the real queue with the remote target behind it, as the target of block D1 (450 each in quick) with "
                       "both body paths and DMARC; thorough also 1 check with <=2 "
                       "non-none verdicts on any placement with DMARC, and 2 checks in one block each with all "
                       "completion orders) plus -simulate over 3 (thorough 4) checks, 3 recipients, <=2 (3) non-none "
                       "verdicts, both body paths, DMARC quarantine, random completion orders within 2 delays, half "
                       "without and half with shared checks (simulation also draws the dimensions below); plus, every "
                       "behaviour of three small scopes for the added dimensions: the connection-time entry RunEarlyChecks "
                       "with two checks of which any subset of those in the global block has the EarlyCheck hook and any "
                       "subset of these refuses (all replayed); every DMARC action (none/quarantine/reject) x six ways of "
                       "publishing it (p / p+sp at the From domain, sp or p at the organizational domain of a subdomain "
                       "sender, own record of the subdomain, upper-case spelling + pct=100) next to one verdict of one check "
                       "on both body paths (quick: seeded 210); RCPT commands that repeat an earlier address (r1 r1, r1 r2 r1, "
                       "...) on both body paths with reply slots per RCPT command as in go-smtp's LMTP collector (quick: all "
                       "with a repetition); for a seeded part the same script is run a second time on the same pipeline "
                       "object; de-duplicated; non-trivial = some verdict other than none, a DMARC action, a refusing early "
                       "check or a repeated address")
    ctx.cov["violated_predicates"] = preds
    for b in behs[:3]:
        ctx.cov["samples"].append({"behaviour": b, "trace": by_t.get(b["id"], [])[:40]})
    ctx.cov["exhaustive"] = False
    ctx.assumptions += [
        "driven at the module.DeliveryTarget interface of msgpipeline.MsgPipeline (Body = SMTP path, "
        "BodyNonAtomic = LMTP path); the endpoints themselves are the subject of C03",
        "scripted checks apply their verdict through the real modconfig.FailAction.Apply; delivery targets are "
        "recording targets that always succeed; the real remote target is exercised with an already flagged message "
        "(RCPT) and behind the pipeline over an in-memory next hop that accepts everything (body stage, both paths); "
        "a refusal by the remote target is a 5.7.z policy error with nothing handed to the next hop",
        "after a BodyNonAtomic that was refused for every recipient the driver ends both ways: Commit (as the LMTP "
        "endpoint and the queue always do; the pipeline must then abort its targets) and Abort; after a refused "
        "atomic Body it calls Abort",
        "verdicts are per stage (rcpt-stage verdicts optionally for the first recipient only), from {none, ignore, "
        "quarantine, reject} through the real FailAction.Apply plus the raw combined result Reject && Quarantine "
        "(Reason with or without an SMTP code) that a check such as check.milter returns itself: reject wins; headers "
        "and Authentication-Results added by checks (and their order relative to modifiers) are not modelled",
        "RunEarlyChecks is driven directly (what the SMTP endpoint calls for a new connection and before AUTH); the "
        "scripted early check is the scripted check plus module.EarlyCheck; only 'a refusing hook refuses the connection' "
        "is demanded of it, not how often a hook is called",
        "DMARC scenarios: an unscripted check reports failing DKIM and SPF results for a foreign domain, so DMARC fails "
        "and the published policy applies; the TXT records and the From domain follow cfg.dmvia, which CheckRunner.tla "
        "does not interpret (C07 decides DMARC itself)",
        "per-recipient body path: the harness collector has one reply slot per accepted RCPT command (go-smtp "
        "createStatusCollector); a slot nobody fills counts as success (LMTPData returns nil after the Commit the "
        "endpoint always issues)",
        "TLC 1.8.0, CommunityModules Json reader",
    ]


META = {
    "engine": "checkrunnercheck",
    "level": "model_checking",
    "technique": "TLA+ spec CheckRunner.tla model-checked by TLC; TLC-generated configurations and completion "
                 "orders replayed on the real msgpipeline.MsgPipeline (synctest-forced schedules); recorded traces "
                 "validated against CheckRunnerTrace.tla (property predicates in CheckRunnerObs.tla)",
    "text": "TLC visits every placement of 1-3 (thorough up to 4) scripted checks on global/source/destination "
            "blocks incl. the same check referenced from several blocks, every verdict table inside the bound "
            "(thorough: all 256 tables for one check, <=2 non-none cells for 2-3 checks, <=1 for 4; quick: <=2 "
            "non-none cells), 1-3 recipients routed to two destination blocks, both body paths, the DMARC "
            "quarantine action and every completion order of the parallel check calls of CheckRunner.tla, and checks "
            "the C06 predicates in every state; the same predicates are evaluated by TLC over traces recorded from "
            "the real pipeline driven with TLC-generated behaviours (small scopes exhaustively incl. all "
            "delay-bounded completion orders, plus simulated behaviours with 3-4 checks). Also modelled and "
            "replayed: destination-scope recipient modifiers that fail for one recipient, and the real remote.Target "
            "behind the pipeline (in-memory next hop) with quarantine arising at the body stage on both body paths; "
            "the connection-time entry RunEarlyChecks (hooked and plain checks mixed in the global block); RCPT commands "
            "repeating an address (checks not asked twice, a refused recipient stays refused, one LMTP reply slot per "
            "command); the DMARC actions none / quarantine / reject published through p= or sp= at the From domain or "
            "its organizational domain, next to check verdicts; a second message on the same pipeline object.",
    "note": "Pipeline-level binding (DeliveryTarget interface), not through the SMTP/LMTP endpoints; weak readings of "
            "DESIGN 2.5 (out-of-scope replay calls, calls during refused commands and verdicts about replayed "
            "recipients are not counted); trusted: TLC, the harness, Go toolchain.",
    "design_ref": "DESIGN.md section 5 C06",
}
