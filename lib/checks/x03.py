"""X03 - inbound authentication checks (check.spf, check.dkim) apply exactly the configured
action for every result and report it truthfully.

(S) spec/InboundAuth.tla: input tables (SPF: every evaluation outcome x DNS situation x configured
    action x enforce_early x null/non-null sender x DMARC situation of the From domain, spellings
    of the MAIL FROM domain, placement of the check, kinds of connection; DKIM: every sequence of
    up to MaxSig real signatures of 16 kinds x action x fail_open x required_fields; the
    composition check.spf + check.dkim + DMARC), the property as named predicates (Prop), the
    documented procedure (Rule) and the code's deviations as named switches (RuleD).
(T) TLC enumerates every row, checks Prop(in, Rule(in)) and two theorems about the rule, prints the
    rows with the world each needs (configuration directives, DNS zone, message); a second run with
    the deviations on must violate Prop (non-vacuity).
(B) harness/inboundauthcheck builds the real check.spf / check.dkim modules from configuration text
    rendered from the row inside a real msgpipeline, a go-mockdns zone and really signed messages,
    and records stage / SMTP reply / quarantine flag / Authentication-Results as the target saw them;
    spec/InboundAuthTrace.tla evaluates Prop on what the code did.
"""
import json
import os
import re

import vlib
import vtable

PID = "X03"

MC_CFG = """SPECIFICATION Spec
CONSTANTS
  MaxSig = %(maxsig)d
  Devs = {%(devs)s}
  Gen = %(gen)s
  DocSubset = "%(docsubset)s"
INVARIANTS %(inv)s
%(emit)s
CHECK_DEADLOCK FALSE
"""

TRACE_CFG = """SPECIFICATION TSpec
CONSTANTS
  MaxSig = 3
  Devs = {}
  Gen = FALSE
  DocSubset = "%(docsubset)s"
  OpenDevs = {%(open)s}
CHECK_DEADLOCK FALSE
POSTCONDITION Post
"""

ALL_DEVS = ["ErrDefaultsIgnore", "FailOpenBroken", "NoBodySubset", "ForgedArKept"]


def q(names):
    return ", ".join('"%s"' % n for n in sorted(names))


def ext_entries():
    p = os.environ.get("VERIF_EXT_FINDINGS") or os.path.join(vlib.VERIF, "extensions", "findings.json")
    if not os.path.exists(p):
        return []
    return [f for f in json.load(open(p)).get("findings", []) if f.get("ext") == PID]


def doc_subset(repo):
    """The allow_body_subset line of the check.dkim block printed in the documentation."""
    p = os.path.join(repo, "docs", "reference", "checks", "dkim.md")
    try:
        txt = open(p).read()
    except OSError as e:
        raise vlib.Infra("cannot read %s: %s" % (p, e))
    m = re.search(r"```\s*\ncheck\.dkim\s*\{(.*?)\}\s*\n```", txt, re.S)
    if not m:
        raise vlib.Infra("no check.dkim example block in %s" % p)
    for line in m.group(1).splitlines():
        f = line.split()
        if f and f[0] == "allow_body_subset":
            if len(f) != 2 or f[1] not in ("yes", "no"):
                raise vlib.Infra("unexpected allow_body_subset line in %s: %r" % (p, line))
            return f[1]
    return "absent"


def nontrivial(row):
    i = row["in"]
    if i["tab"] == "spf":
        return i["res"] != "pass"
    if i["tab"] == "dkim":
        return any(s["k"] not in ("pass", "passlc", "ed") for s in i["sigs"]) or not i["sigs"]
    return True


def short(i):
    return json.dumps({k: i[k] for k in i if k != "tab"}, sort_keys=True)


def run(ctx, replay):
    thorough = ctx.tier == "thorough"
    entries = ext_entries()
    open_by_dev = {e["match"]["deviation"]: e for e in entries
                   if e.get("status", "open") == "open" and "deviation" in e.get("match", {})}

    docsubset = doc_subset(ctx.repo)
    ctx.cov["documented_allow_body_subset"] = docsubset

    # ---- (T) + rows ---------------------------------------------------------
    if replay:
        obj = json.load(open(replay))
        rows = [obj["row"]]
        rows[0]["id"] = 1
    else:
        maxsig = 3 if thorough else 2
        r = ctx.tlc_expect_ok("InboundAuth", None, name="mc", workers=8, timeout=2400,
                              cfg_text=MC_CFG % dict(maxsig=maxsig, devs="", gen="TRUE", docsubset=docsubset,
                                                     inv="RuleSatisfiesProp DkimPassIffGood SpfEarlyNeverBody",
                                                     emit="CONSTRAINT Emit"))
        rows = vtable.rows_from(r)
        if len(rows) != r["distinct"]:
            raise vlib.Infra("TLC printed %d distinct rows for %d states" % (len(rows), r["distinct"]))
        ctx.cov["states"] = r["distinct"]
        ctx.cov["transitions"] = r["generated"]
        ctx.cov["model_depth"] = r["depth"]
        ctx.log("TLC: %d input rows (MaxSig=%d); Prop(in, Rule(in)) and the rule theorems hold on all, %.1fs" % (
            r["distinct"], maxsig, r["wall"]))
        # as-is: with the code's deviations switched on the predicates must fail (non-vacuity),
        # each deviation on its own
        for dev in ALL_DEVS:
            ra = ctx.tlc("InboundAuth", None, name="asis-" + dev, workers=2, timeout=600,
                         cfg_text=MC_CFG % dict(maxsig=1, devs=q([dev]), gen="FALSE", docsubset="no",
                                                inv="AsIsSatisfiesProp", emit=""))
            if ra["invariant"] != "AsIsSatisfiesProp":
                raise vlib.Infra("as-is model (%s) does not violate the property: predicates vacuous? (%s)" % (
                    dev, ra["error"]))
        ctx.cov["asis_counterexamples_found"] = ALL_DEVS
    sel = rows          # every row goes through the real code in both tiers (cheap)
    by_id = {row["id"]: row for row in sel}
    ctx.log("%d rows to run through the real code" % len(sel))

    # ---- (B) the real code ------------------------------------------------------
    binary = ctx.build_harness("inboundauthcheck")
    items = [{"id": row["id"], "in": row["in"], "world": row["world"]} for row in sel]
    # the check instances of one configuration serve many rows one after the other: a seeded order
    # makes every run a different history for them (a verdict must not depend on earlier messages)
    if not replay:
        ctx.rng.shuffle(items)
    events = ctx.run_shards(binary, items, timeout=1500, env_extra={"VERIF_SHOWCFG": "1"} if replay else None)
    events = [e for e in events if e["e"] == "Row"]
    ctx.log("real code answered %d rows" % len(events))
    if len(events) != len(sel):
        raise vlib.Infra("harness answered %d of %d rows" % (len(events), len(sel)))
    ev_by_t = {e["t"]: e for e in events}
    weird = [e for e in events if e["out"]["class"] in ("lost", "refused-but-delivered")
             or e["out"]["class"].startswith("incoherent")]
    # (these classes are outside the spec's vocabulary: every predicate that constrains the class fails on them)

    # binding self-test: forged outputs must be rejected, and must not pass as extension findings
    selftest = {}
    if not replay:
        def forge(t, pred, chg):
            # built from the row and the rule's output only: independent of what the code did
            for e in events:
                row = by_id[e["t"]]
                if pred(row):
                    f = json.loads(json.dumps(e))
                    f["t"] = t
                    f["out"].update(row["exp"])
                    chg(f["out"], row)
                    return f
            return None

        def set_(**kw):
            return lambda o, row: o.update(kw)

        def flip_dkim(o, row):
            o["ar"] = [dict(a, v="pass") if a["m"] == "dkim" else a for a in o["ar"]]

        def swap_identity(o, row):
            o["ar"] = [dict(a, a="helo.example") if a["m"] == "spf" else a for a in o["ar"]]

        spf = lambda row: row["in"]["tab"] == "spf"
        dk = lambda row: row["in"]["tab"] == "dkim"
        forged = [
            (900001, "SPF reject turned into accept",
             forge(900001, lambda row: spf(row) and row["exp"]["class"] == "permreject", set_(
                 class_="accept", stage="none", code=0, enh=""))),
            (900002, "SPF quarantine dropped",
             forge(900002, lambda row: spf(row) and row["exp"]["class"] == "quarantine", set_(class_="accept"))),
            (900003, "early refusal moved to the body stage",
             forge(900003, lambda row: spf(row) and row["exp"]["stage"] == "mail", set_(stage="body"))),
            (900004, "temporary refusal made permanent",
             forge(900004, lambda row: spf(row) and row["in"]["res"] == "temperror" and row["in"]["act"] == "reject"
                   and row["exp"]["class"] == "tempreject", set_(class_="permreject", code=550, enh="5.7.23"))),
            (900005, "broken signature reported as pass",
             forge(900005, lambda row: dk(row) and row["exp"]["class"] == "accept" and
                   any(a["v"] == "fail" for a in row["exp"]["ar"]), flip_dkim)),
            (900006, "SPF entry names the wrong identity",
             forge(900006, lambda row: spf(row) and row["in"]["sender"] == "plain" and row["exp"]["ar"], swap_identity)),
            (900007, "deferred action taken anyway",
             forge(900007, lambda row: spf(row) and row["in"]["dm"] == "reject" and row["in"]["early"] == "no"
                   and row["in"]["res"] == "fail" and row["in"]["act"] == "reject",
                   set_(class_="permreject", stage="body", code=550, enh="5.7.23", ar=[]))),
        ]
        for t, what, f in forged:
            if f is None:
                raise vlib.Infra("binding self-test: no base row for '%s'" % what)
            if "class_" in f["out"]:
                f["out"]["class"] = f["out"].pop("class_")
            selftest[t] = what
            events = events + [f]

    verdicts, accepted = vtable.validate_rows(ctx, "InboundAuthTrace", TRACE_CFG % dict(open=q(open_by_dev), docsubset=docsubset),
                                              events, batch=4000, par=8, timeout=1800)
    ctx.log("TLC evaluated %d recorded rows: %d accepted as conforming" % (len(events), accepted))
    for t, what in selftest.items():
        v = verdicts.get(t)
        if not v or not v["viol"] or v["devs"]:
            raise vlib.Infra("binding self-test failed: forged row (%s) was accepted or explained by a deviation" % what)
        del verdicts[t]
    if selftest:
        ctx.cov["binding_selftest"] = "forged rows rejected: " + "; ".join(selftest.values())

    # ---- verdicts ------------------------------------------------------------------
    drift = 0
    finding_rows = {}
    preds = {}
    for t, v in sorted(verdicts.items()):
        row, ev = by_id[t], ev_by_t[t]
        o = ev["out"]
        outs = {k: o[k] for k in ("cfg", "stage", "class", "code", "enh")}
        outs["ar"] = [[a["m"], a["v"], a["a"], a["b"]] for a in o["ar"]]
        devsets = sorted((sorted(d) for d in v["devs"]), key=lambda d: (len(d), d))
        minimal = devsets[0] if devsets else None
        explained = minimal is not None and all(d in open_by_dev for d in minimal)
        if explained and v["viol"]:
            allowed = set()
            for d in minimal:
                allowed |= set(open_by_dev[d]["match"].get("predicates", []))
            explained = set(v["viol"]) <= allowed
        if v["viol"] and not explained:
            for p in v["viol"]:
                preds[p] = preds.get(p, 0) + 1
            what = "inbound authentication violates %s: in=%s out=%s err=%s" % (
                ",".join(sorted(v["viol"])), short(row["in"]), json.dumps(outs), o.get("err", "")[:160])
            ctx.violation(what, {"property": PID, "row": row, "out": o, "violated": sorted(v["viol"]),
                                 "how": "bin/check X03 --replay <this file>"})
        elif explained:
            # exactly the behaviour of the named deviation(s) of open extension findings
            for d in minimal:
                e = open_by_dev[d]
                k = finding_rows.setdefault(e["id"], {"rows": 0, "violating_rows": 0, "predicates": {},
                                                      "example": None, "what": e["what"]})
                k["rows"] += 1
                if v["viol"]:
                    k["violating_rows"] += 1
                    for p in v["viol"]:
                        k["predicates"][p] = k["predicates"].get(p, 0) + 1
                    if k["example"] is None:
                        k["example"] = {"in": row["in"], "out": outs, "expected": row["exp"],
                                        "violated": sorted(v["viol"]), "err": o.get("err", "")[:200]}
                        dump = os.environ.get("VERIF_X03_DUMP_FINDING_ROWS")
                        if dump:      # reproduction files for extensions/findings/*.md
                            os.makedirs(dump, exist_ok=True)
                            with open(os.path.join(dump, e["id"] + ".json"), "w") as f:
                                json.dump({"property": PID, "row": {k2: row[k2] for k2 in ("in", "exp", "world")}}, f)
        else:
            drift += 1
            if drift <= 10:
                print("DRIFT property=X03 row=%d in=%s out=%s expected=%s" % (
                    t, short(row["in"]), json.dumps(outs), json.dumps(row.get("exp"))))
    if replay:
        o = events[0]["out"]
        v = verdicts.get(events[0]["t"])
        print("REPLAY ext=X03 configuration:\n" + events[0].get("cfgText", ""))
        print("REPLAY ext=X03 real code: %s" % json.dumps({k: o[k] for k in ("cfg", "stage", "class", "code", "enh", "arRaw", "err")}))
        print("REPLAY ext=X03 documented: %s" % json.dumps(rows[0].get("exp")))
        print("REPLAY ext=X03 verdict of TLC: %s" % (
            "conforms to the documented rule" if v is None else
            "violated=%s differs-from-documented-rule=%s explained-by-deviations=%s" % (
                sorted(v["viol"]), v["drift"],
                [d for d in sorted(sorted(d) for d in v["devs"])
                 if len(d) == min([len(x) for x in v["devs"]] or [0])])))
    for fid, k in sorted(finding_rows.items()):
        print("EXT-FINDING: ext=%s %s %s (%d rows, %d violating)" % (PID, fid, k["what"], k["rows"], k["violating_rows"]))
    if weird:
        ctx.notes.append("%d rows ended in a class outside the vocabulary (lost / incoherent reply)" % len(weird))
    ctx.cov["traces_validated_against_impl"] = accepted
    ctx.cov["drift_traces"] = drift
    ctx.cov["ext_finding_rows"] = finding_rows
    ctx.cov["evaluations"] = len(sel)
    ctx.cov["distinct_nontrivial"] = sum(1 for row in sel if nontrivial(row))
    subs = {}
    for row in sel:
        key = row["in"]["tab"] + "/" + row["in"]["sub"]
        subs[key] = subs.get(key, 0) + 1
    ctx.cov["rows_by_table"] = subs
    ctx.cov["rule"] = ("rows = states of InboundAuth.tla (one per input; distinct by construction): spf/main (18 outcome x DNS "
                       "situations x 8 actions x enforce_early absent/no/yes x plain/null sender x 11 DMARC situations), "
                       "spf/sender (upper-case and U-label MAIL FROM domains), spf/place (source / destination block), "
                       "spf/conn (IPv6, no IP, no connection), dkim/one (no or one signature of 16 kinds x 8 actions x "
                       "fail_open x required_fields), dkim/two (every ordered pair), dkim/three (thorough: every ordered "
                       "triple), dkim/doc (the documented example block), */forged (client-supplied Authentication-Results "
                       "fields), joint (check.spf + check.dkim + dmarc yes); "
                       "every row is run through the real code in both tiers; non-trivial = not an SPF pass / not only "
                       "valid signatures")
    ctx.cov["violated_predicates"] = preds
    ctx.cov["exhaustive"] = True
    picks = []
    for key in ("spf/main", "spf/place", "dkim/two", "dkim/doc", "joint/joint"):
        tab, sub = key.split("/")
        c = [row for row in sel if row["in"]["tab"] == tab and row["in"]["sub"] == sub]
        if c:
            picks.append(c[len(c) // 3])
    for row in picks:
        o = ev_by_t[row["id"]]["out"]
        ctx.cov["samples"].append({"in": row["in"], "world": row["world"], "expected": row["exp"],
                                   "out": {k: o[k] for k in ("cfg", "stage", "class", "code", "enh", "ar", "arRaw", "err", "queries")}})
    ctx.assumptions += [
        "blitiri.com.ar/go/spf (SPF evaluation) and emersion/go-msgauth (DKIM verification, Authentication-Results "
        "syntax) are trusted to classify a DNS situation / a signature; the spec's outcome per situation is what RFC 7208 / "
        "RFC 6376 / RFC 8301 say and the libraries agree on every row",
        "DNS is go-mockdns: SERVFAIL = *net.DNSError{IsTemporary}, NXDOMAIN = *net.DNSError{IsNotFound}, names are "
        "matched case-insensitively",
        "the Authentication-Results field is read back with go-msgauth's parser; names are compared as lower-case A-labels",
        "the pipeline is driven at the delivery-target interface (Start = MAIL, AddRcpt = RCPT, Body = DATA) as the SMTP "
        "endpoint drives it; the SMTP endpoint itself is C03/C16",
        "TLC 1.8.0, CommunityModules Json",
    ]


META = {
    "engine": "inboundauthcheck",
    "level": "model_checking",
    "technique": "TLA+ spec InboundAuth.tla (property predicates, documented rule, named deviations) enumerated by TLC; rows "
                 "run through the real check.spf / check.dkim modules inside a real msgpipeline with a mock DNS and really "
                 "signed messages; recorded behaviour evaluated by TLC (InboundAuthTrace.tla)",
    "statement": "For every SPF evaluation outcome (pass, none, neutral, fail, softfail, temperror, permerror, each in every "
                 "DNS situation that yields it), every action configured for that outcome (absent = the documented default, "
                 "ignore, quarantine, reject, reject/quarantine with an SMTP code), enforce_early absent/no/yes, null and "
                 "non-null reverse-path (any spelling of the domain), every DMARC situation of the From domain, every "
                 "placement of the check and every kind of connection: check.spf takes exactly the configured action for "
                 "the outcome of the identity RFC 7208 names (MAIL FROM domain, HELO for the null reverse-path) - no action "
                 "on pass, a temporary refusal for a temporary error, the configured code when one is given -, takes it "
                 "before the body is received when enforce_early is on and at the body stage otherwise, takes no action "
                 "when enforce_early is off and the From domain publishes a quarantine/reject DMARC policy (then DMARC, "
                 "with check.spf and check.dkim configured, takes the action the policy asks for using the SPF result), "
                 "and the Authentication-Results field always carries one spf entry with the real outcome and the "
                 "evaluated identity. For every sequence of DKIM signatures (valid RSA/Ed25519, lower-case h=, unsigned "
                 "required field, bad body hash, bad signature, no key, revoked key, short key, expired, temporary key "
                 "lookup error, malformed, body-length tag), every no_sig_action / broken_sig_action, fail_open and "
                 "required_fields: check.dkim applies no_sig_action exactly when there is no signature, "
                 "broken_sig_action exactly when there is no valid one, nothing when there is a valid one, refuses with a "
                 "4xx reply on a temporary error unless fail_open is on (then the temporary error does not get the message "
                 "refused), accepts the documented configuration block, and the Authentication-Results field lists every "
                 "signature with its d= and its true result (pass only for a valid signature covering the required fields).",
    "text": "TLC enumerates the input tables of InboundAuth.tla (24k rows quick, 73k thorough), checks the property predicates "
            "and two theorems on the documented rule for every row, and evaluates the same predicates on what the real "
            "check.spf / check.dkim modules did for every row inside a real message pipeline (stage, SMTP reply, quarantine "
            "flag, Authentication-Results as the delivery target saw them).",
    "note": "SPF evaluation and DKIM cryptography are the libraries' (blitiri spf, go-msgauth); DNS is go-mockdns; the SMTP "
            "endpoint is not in the loop (pipeline driven at the DeliveryTarget interface).",
    "design_ref": "extensions/X03.md",
}
