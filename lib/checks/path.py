"""PATH - end-to-end composition (growth beyond the listed properties, not registered in MANIFEST):
MsgPath.tla model-checked by TLC; behaviours replayed through the real endpoint -> pipeline ->
queue -> smtp/lmtp forwarder -> scripted next hop chain; traces validated by MsgPathTrace.tla.
Run: bin/check PATH [--tier quick|thorough]"""
import json

import vlib

LEVEL = "model_checking"
CFG = """SPECIFICATION %(spec)s
CONSTANTS
  Rcpts = {%(rcpts)s}
  Rejected = {%(rej)s}
  MaxTries = 2
  Gen = %(gen)s
%(tail)s
"""


def cfg(spec, rcpts, rej, gen=False, tail="VIEW View\nINVARIANT NoViolation\n"):
    q = lambda xs: ", ".join('"%s"' % x for x in xs)
    return CFG % dict(spec=spec, rcpts=q(rcpts), rej=q(rej), gen="TRUE" if gen else "FALSE", tail=tail)


def run(ctx, replay):
    thorough = ctx.tier == "thorough"
    r = ctx.tlc_expect_ok("MsgPath", None, name="mc", workers=8, timeout=1800,
                          cfg_text=cfg("Spec", ["r1", "r2", "r3"], ["r3"]))
    ctx.cov["states"], ctx.cov["transitions"] = r["distinct"], r["generated"]
    behs = []
    for rej in ([], ["r2"], ["r1", "r2"]):
        g = ctx.tlc("MsgPath", None, name="sim" + "".join(rej), workers=1, timeout=600,
                    simulate=700 if thorough else 90, depth=30,
                    cfg_text=cfg("Spec", ["r1", "r2"], rej, gen=True, tail="CHECK_DEADLOCK FALSE\n"))
        if not g["ok"]:
            raise vlib.Infra("generation failed: %s %s" % (g["invariant"], g["error"]))
        for tag, val in g["printed"]:
            if tag == "BEH":
                behs.append(val)
    seen, uniq = set(), []
    for b in behs:
        k = json.dumps(b, sort_keys=True)
        if k not in seen:
            seen.add(k)
            b["id"] = len(uniq) + 1
            uniq.append(b)
    behs = uniq
    ctx.log("%d behaviours" % len(behs))
    binary = ctx.build_harness("pathcheck")
    events = ctx.run_shards(binary, behs, shards=8, name="path")
    if any(e["e"] == "Stuck" for e in events):
        raise vlib.Infra("a spool did not drain within the harness time-out")
    # Rejected differs per behaviour: validate per rejected set
    by_id = {b["id"]: b for b in behs}
    ok = drift = 0
    groups = {}
    for e in events:
        groups.setdefault(tuple(by_id[e["t"]]["rejected"]), []).append(e)
    for rej, evs in groups.items():
        verdicts, by_t = ctx.validate("MsgPathTrace", None, evs, name="trace" + "".join(rej),
                                      cfg_text=cfg("TSpec", ["r1", "r2", "r3"], list(rej),
                                                   tail="CHECK_DEADLOCK FALSE\nPOSTCONDITION Post\n"))
        for t, recs in sorted(verdicts.items()):
            viol = sorted(set(v for r_ in recs for v in r_["viol"]))
            if viol:
                ctx.violation("message path violates " + ",".join(viol),
                              {"property": "PATH", "behaviour": by_id[t], "trace": by_t[t], "violated": viol})
            elif any(not r_["drift"] for r_ in recs):
                ok += 1
            else:
                drift += 1
                print("DRIFT property=PATH trace=%d first-unexplained-seq=%s" % (t, recs[0]["driftAt"]))
    ctx.cov["traces_validated_against_impl"] = ok
    ctx.cov["drift_traces"] = drift
    ctx.cov["evaluations"] = len(behs)
    ctx.cov["distinct_nontrivial"] = sum(1 for b in behs if any(s["a"] == "Attempt" for s in b["hist"]))
    ctx.cov["rule"] = "behaviours of MsgPath.tla simulated by TLC; non-trivial = the queue made at least one attempt"
    ctx.cov["samples"] = [{"behaviour": behs[0]}]


META = {
    "engine": "pathcheck",
    "level": "model_checking",
    "statement": "For every SMTP/LMTP session with one transaction (any recipient list, recipients the pipeline refuses, DATA / "
                 "RSET / disconnect) and every behaviour of the next hop over up to max_tries attempts, with or without a "
                 "restart of the server after the first attempt: a recipient refused at RCPT never reaches the next hop, "
                 "nothing reaches it without a 250 for DATA, it accepts the message at most once per recipient, and after "
                 "a 250 every accepted recipient is accepted by the next hop exactly once or named in exactly one failure "
                 "report (composition of C03, C04/C09 and C01).",
    "technique": "TLA+ spec MsgPath.tla model-checked by TLC; behaviours replayed through the real endpoint -> pipeline -> "
                 "queue -> smtp/lmtp forwarder -> scripted next hop; traces validated against MsgPathTrace.tla",
}
