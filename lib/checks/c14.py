"""C14 - password authentication succeeds only with the current password.

(T) TLC checks Auth.tla exhaustively: the credential table automaton (create /
    set-password / delete, each possibly refused), the observers PLAIN / LOGIN
    through every user-name map, the submission gate; predicates in AuthObs.tla.
(B) TLC-generated histories (simulation, <= 12 operations) are replayed on the
    real auth.pass_table over a mutable in-memory table, the real
    auth.SASLAuth.CreateSASL driven with real SASL exchanges and the real
    submission endpoint over in-memory connections; the recorded traces are
    validated against AuthTrace.tla (same predicates).
"""
import json
import os

import vlib

ALL_KINDS = ["Create", "SetPw", "Delete", "AuthPlain", "AuthLogin", "AuthPair", "AuthDirect",
             "SOpen", "SEhlo", "SAuth", "SMail", "SRset", "SClose"]
OLD_MAPS = ["none", "identity", "s_ab", "s_swap", "s_id", "s_ba", "s_proj", "r_strip", "r_append",
            "b_local", "b_localopt"]
RX_MAPS = ["r_class", "r_dollar", "r_alt"]        # regexp maps that rely on full_match for their anchors
ALL_MAPS = OLD_MAPS + RX_MAPS
OLD_PWS = ["empty", "a", "b", "nfc", "l72", "l73", "long", "long2"]
# pairs of passwords a "helpful" preparation (NFC, spaces, case, width, trimming) would make equal
PW_TWINS = [("nfc", "nfd"), ("nbsp", "sp"), ("a", "aup"), ("a", "atr"), ("b", "bwide"), ("jamo", "jamoc")]
TWIN_PWS = sorted({p for pair in PW_TWINS for p in pair})
ALL_PWS = OLD_PWS + [p for p in TWIN_PWS if p not in OLD_PWS]
ALL_VARIANTS = ["plain", "upper", "nfd", "wide"]
EMAIL_VARIANTS = ["alabel", "alabelup"]           # spellings of ub only the e-mail aware normalisation equates
ALL_BAD = ["space", "zwj"]
ALL_DEVS = ["LoginMapTwice", "BcryptTrunc", "RegexpAltAnchor"]
OLD_UX = ["plain", "under", "underb", "pct"]      # names that are no account; three are SQL LIKE patterns
NEAR_UX = ["pre_a", "suf_a", "pre_b", "suf_b"]    # ... that contain an account name
DEV_UX = ["sharp", "zwnj"]                        # ... that differ from ub by an IDNA deviation character
ALL_UX = OLD_UX + NEAR_UX + DEV_UX
ALL_MFS = ["addr", "null", "nullparam", "upper", "utf8"]          # reverse-paths tried in MAIL

CFG = """SPECIFICATION %(spec)s
CONSTANTS
  Variants = {%(variants)s}
  BadVariants = {%(bad)s}
  Pws = {%(pws)s}
  Schemes = {"bcrypt", "argon2", "sha256"}
  Maps = {%(maps)s}
  Norms = {%(norms)s}
  Kinds = {%(kinds)s}
  UxVariants = {%(ux)s}
  Tbls = {%(tbls)s}
  Defers = {%(defers)s}
  MailFroms = {%(mfs)s}
  Doms = {%(doms)s}
  EmailVariants = {%(emailv)s}
  MaxOps = %(maxops)d
  Devs = {%(devs)s}
  Gen = %(gen)s
%(tail)s
"""


def q(xs):
    return ", ".join('"%s"' % x for x in xs)


def cfg(spec="Spec", variants=ALL_VARIANTS, bad=ALL_BAD, pws=OLD_PWS, maps=OLD_MAPS, norms=("auto",),
        kinds=ALL_KINDS, maxops=12, devs=(), gen=False, tail="", ux=OLD_UX, tbls=("mem",), defers=(True, False),
        mfs=ALL_MFS, doms=("ascii",), emailv=()):
    return CFG % dict(ux=q(ux), tbls=q(tbls), defers=", ".join("TRUE" if d else "FALSE" for d in defers), mfs=q(mfs),
                      doms=q(doms), emailv=q(emailv),
                      spec=spec, variants=q(variants), bad=q(bad), pws=q(pws), maps=q(maps), norms=q(norms),
                      kinds=q(kinds), maxops=maxops, devs=q(devs), gen="TRUE" if gen else "FALSE", tail=tail)


MC_TAIL = "VIEW View\nINVARIANTS NoViolation TypeOK\n"
GEN_TAIL = "CHECK_DEADLOCK FALSE\n"
TRACE_TAIL = "CHECK_DEADLOCK FALSE\nPOSTCONDITION Post\n"


def load_findings(pid):
    """known_findings.d/<pid>.json is the source (known_findings.json is generated from it);
    VERIF_KNOWN_OVERRIDE points at an alternative file (mutation drill / fix validation)."""
    p = os.environ.get("VERIF_KNOWN_OVERRIDE") or os.path.join(vlib.VERIF, "known_findings.d", pid + ".json")
    if os.path.exists(p):
        fs = json.load(open(p)).get("findings", [])
    else:
        fs = vlib.load_known(pid)
    return [f for f in fs if f.get("property") == pid]


def open_findings(pid):
    return [f for f in load_findings(pid) if f.get("status", "open") == "open"]


TWIN_SET = {(a, b) for a, b in PW_TWINS} | {(b, a) for a, b in PW_TWINS}


# ---- structural classes of a history (sampling only, decides nothing) ----------
def classes(b):
    tags = set()
    cur, changed, deleted = {}, {}, {}
    auth_seen, touched_after_auth = set(), set()
    authed = False
    mp = b["cfg"]["map"]
    for s in b["hist"]:
        a = s["a"]
        u = s.get("sp", {}).get("u")
        if a in ("Create", "SetPw"):
            if s["fail"] or u not in ("ua", "ub") or (a == "Create" and (s["sch"] == "sha256" or u in cur)):
                tags.add("refused-op")
                continue
            if u in cur and cur[u][0] != s["pw"]:
                changed[u] = cur[u][0]
                if u in auth_seen:
                    touched_after_auth.add(u)
            cur[u] = (s["pw"], s["sp"]["v"], s.get("sch", "bcrypt"), a)
            deleted.pop(u, None)
        elif a == "Delete":
            if not s["fail"] and u in cur:
                deleted[u] = cur.pop(u)[0]
                if u in auth_seen:
                    touched_after_auth.add(u)
        elif a in ("Auth", "AuthPair", "AuthDirect", "SAuth"):
            if u in touched_after_auth:
                tags.add("reauth")               # authenticated, account changed, authenticated again
            if u in ("ua", "ub"):
                auth_seen.add(u)
            if u in cur and cur[u][0] != s["pw"] and s["pw"] in OLD_PWS:
                tags.add("probe:%s:%s" % (s["pw"], cur[u][2]))     # wrong password against an existing account
            kind = a + s.get("mech", "")
            sv = s["sp"]["v"]
            if u in cur:                                   # (the account the name is a spelling of, maps aside)
                stored, op = cur[u][0], cur[u][3]
                if (stored, s["pw"]) in TWIN_SET:
                    tags.add("pwtwin:%s:%s:%s" % (op, stored, s["pw"]))      # a twin of the password in force
                if stored == s["pw"] and stored in TWIN_PWS:
                    tags.add("pwexact:%s:%s" % (op, stored))                # the very octets that were set
                if stored == s["pw"] and sv in EMAIL_VARIANTS:
                    tags.add("email:%s:%s" % (sv, kind))                    # A-label spelling, current password
            if u == "ux" and mp in RX_MAPS and sv in NEAR_UX and "ua" in cur and cur["ua"][0] == s["pw"]:
                tags.add("rx:%s:%s" % (mp, sv))            # a name the map must not cover, password of the map's target
            if u == "ub" and mp in RX_MAPS and "ua" in cur and cur["ua"][0] == s["pw"]:
                tags.add("rxhit:%s" % mp)
            if u == "ux" and sv in DEV_UX and b["cfg"].get("dom") == "idn" and "ub" in cur and cur["ub"][0] == s["pw"]:
                tags.add("devtwin:%s:%s" % (sv, kind))     # deviation-character twin of ub with ub's password
            for x, (pw, v, sch, _op) in cur.items():
                if s["pw"] == pw and u == "ux" and s["sp"]["v"] in OLD_UX[1:]:
                    # a non-account name made of SQL pattern characters with the password of an account
                    tags.add("pattern:%s:%s:%s" % (b["cfg"].get("tbl", "mem"), s["sp"]["v"], a))
                if s["pw"] == pw:
                    tags.add("hit")
                    if u == x and s["sp"]["v"] != v:
                        tags.add("norm")
                    if a == "Auth" and s["mech"] == "PLAIN" and s["az"] != "empty":
                        tags.add("az-" + s["az"])
                    if mp not in ("none", "identity"):
                        tags.add("map")
                    if a == "AuthDirect":
                        tags.add("direct")
                        if u == x and s["sp"]["v"] != v:
                            tags.add("direct-norm")
                    if a == "AuthPair":
                        tags.add("pair")
                    if a == "AuthPair" and mp not in ("none", "identity"):
                        tags.add("pair-map")
                    if a == "SAuth":
                        tags.add("sauth")
                        authed = True
                    if a == "Auth" and s["mech"] == "LOGIN":
                        tags.add("login")
                    tags.add("sch-" + sch)
                if pw == "l72" and s["pw"] in ("l73", "long", "long2"):
                    tags.add("trunc-" + sch)
            for x, pw in changed.items():
                if s["pw"] == pw and u == x:
                    tags.add("stale")
            for x, pw in deleted.items():
                if s["pw"] == pw and u == x and x not in cur:
                    tags.add("deleted")
        elif a == "SOpen" or a == "SEhlo":
            authed = False
        elif a == "SMail":
            tags.add("mail-%s-auth:%s:%s" % ("after" if authed else "before", s.get("mf", "addr"),
                                             "defer" if b["cfg"].get("defer", True) else "immediate"))
    return tags


def select(ctx, pool, n, quota):
    """Seeded sample of n histories that contains at least `quota` of every structural class."""
    ctx.rng.shuffle(pool)
    by_tag = {}
    for b in pool:
        b["_tags"] = classes(b)
        for t in b["_tags"]:
            by_tag.setdefault(t, []).append(b)
    chosen, seen = [], set()

    def take(b):
        if id(b) not in seen:
            seen.add(id(b))
            chosen.append(b)
    for t in sorted(by_tag):
        k = max(3, quota // 3) if t.startswith(("pattern:", "mail-", "probe:")) else quota
        if t.startswith(("pwtwin:", "rx:", "rxhit:", "email:", "devtwin:")):
            k = 3
        elif t.startswith("pwexact:"):
            k = 2
        for b in by_tag[t][:k]:
            take(b)
    for b in pool:
        if len(chosen) >= n:
            break
        take(b)
    counts = {t: sum(1 for b in chosen if t in b["_tags"]) for t in sorted(by_tag)}
    for i, b in enumerate(chosen):
        b["id"] = i + 1
    return chosen, counts


def dedup(behs):
    seen, out = set(), []
    for b in behs:
        k = json.dumps([b["cfg"], b["hist"]], sort_keys=True)
        if k not in seen:
            seen.add(k)
            out.append(b)
    return out


def strip(b):
    return {k: v for k, v in b.items() if not k.startswith("_")}


def run(ctx, replay):
    thorough = ctx.tier == "thorough"
    findings = load_findings("C14")
    open_f = [f for f in findings if f.get("status", "open") == "open"]
    open_devs = sorted({f["match"]["deviation"] for f in open_f})

    # TLC runs and the harness build are independent: run them side by side
    from concurrent.futures import ThreadPoolExecutor
    pool_ex = ThreadPoolExecutor(max_workers=12)
    fut_build = pool_ex.submit(ctx.build_harness, "authcheck")

    # ---- (T) exhaustive model checking of the design ---------------------------
    # (replay mode runs the small configuration too so that the evidence file stays complete)
    if thorough and not replay:
        fut_mc = pool_ex.submit(ctx.tlc, "Auth", None, name="mc", workers=6, timeout=2400, heap="4g",
                                cfg_text=cfg(pws=["empty", "a", "l72", "l73", "long"], maps=ALL_MAPS,
                                             ux=OLD_UX + ["suf_b"], doms=["idn"], emailv=["alabel"], tail=MC_TAIL))
    else:
        # (the spellings of "ux" other than suf_b are the same name for the design, and r_class / r_alt are the
        # function r_strip is: the quick configuration leaves the duplicates out)
        fut_mc = pool_ex.submit(ctx.tlc, "Auth", None, name="mc", workers=4, timeout=600, heap="2g",
                                cfg_text=cfg(variants=["plain", "upper"], bad=["space"], maps=OLD_MAPS + ["r_dollar"],
                                             ux=["plain", "suf_b"], doms=["idn"], emailv=["alabel"],
                                             pws=["a", "l72", "l73"], tail=MC_TAIL))
    # non-vacuity: each as-is deviation must be found by the same invariant
    fut_asis = {}
    if not replay:
        for d in ALL_DEVS:
            fut_asis[d] = pool_ex.submit(ctx.tlc, "Auth", None, name="asis-" + d, workers=2, timeout=300, heap="1g",
                                         cfg_text=cfg(variants=["plain", "upper"], bad=["space"],
                                                      maps=OLD_MAPS + ["r_alt"], ux=["plain", "suf_b"],
                                                      pws=["a", "l72", "l73"], devs=[d],
                                                      tail="VIEW View\nINVARIANTS NoViolation\n"))

    # ---- (B) behaviours out of TLC -------------------------------------------------
    if replay:
        obj = json.load(open(replay))
        behs = [obj["behaviour"]]
        behs[0]["id"] = 1
        counts = {}
    else:
        per = 6000 if thorough else 1500
        tab = ["Create", "SetPw", "Delete", "AuthPlain", "AuthLogin", "AuthPair", "AuthDirect"]
        steer = GEN_TAIL + "CONSTRAINT Steer\n"
        sims = [
            ("sim-dense", dict(pws=["a", "b", "empty"], bad=["space"], kinds=tab, tail=steer)),
            ("sim-long", dict(pws=["a", "l72", "l73", "long", "long2"], bad=["zwj"], kinds=tab, tail=steer)),
            ("sim-gate", dict(pws=["a", "nfc"], variants=["plain", "upper"], bad=[],
                              kinds=["Create", "SetPw", "SOpen", "SEhlo", "SAuth", "SMail", "SRset", "SClose"],
                              tail=steer)),
            # the real table.sql_table (sqlite3) behind pass_table, names with SQL pattern characters
            ("sim-sql", dict(pws=["a", "b"], variants=["plain", "upper"], bad=["space"], kinds=tab, tbls=["sql"],
                             defers=[True], tail=steer)),
            # regexp maps whose anchors come from full_match, names that contain a covered name
            ("sim-rx", dict(pws=["a", "b"], variants=["plain", "upper"], bad=[], maps=RX_MAPS + ["r_strip", "r_append"],
                            ux=["plain"] + NEAR_UX, kinds=tab, tail=steer)),
            # passwords a preparation step would confuse: set one, try it and its twin
            ("sim-pw", dict(pws=TWIN_PWS, variants=["plain", "upper"], bad=[], maps=["none", "identity", "s_id"],
                            ux=["plain"], kinds=tab, tail=steer)),
            # the e-mail shaped user on an internationalised domain: A-label spellings, deviation-character twins
            ("sim-idn", dict(pws=["a", "b"], variants=["plain", "upper", "nfd"], bad=[], doms=["idn"], emailv=EMAIL_VARIANTS,
                             maps=["none", "identity", "s_id", "s_ba", "s_swap", "r_strip", "b_local", "b_localopt"],
                             ux=["plain", "suf_b"] + DEV_UX, kinds=tab + ["SOpen", "SAuth", "SMail", "SClose"],
                             tail=steer)),
            # (the two broad ones; a simulation step costs as much as the state has successors, so they
            # take one password twin and two of the new names only)
            ("sim-steer", dict(norms=["auto", "precis_casefold"], tbls=["mem", "sql"], maps=ALL_MAPS,
                               pws=OLD_PWS + ["nfd"], ux=OLD_UX + ["pre_b", "suf_b"], doms=["ascii", "idn"],
                               emailv=["alabel"], tail=steer)),
            ("sim-full", dict(norms=["auto", "precis_casefold"], tbls=["mem", "sql"], maps=ALL_MAPS,
                              pws=OLD_PWS + ["nfd"], ux=OLD_UX + ["pre_b", "suf_b"], doms=["ascii", "idn"],
                              emailv=["alabel"], tail=GEN_TAIL)),
        ]
        sims.sort(key=lambda x: x[0] not in ("sim-full", "sim-steer"))      # the long ones first
        focused = ("sim-rx", "sim-pw", "sim-idn")
        futs = [(name, pool_ex.submit(ctx.tlc, "Auth", None, name=name, workers=1, timeout=2400 if thorough else 900,
                                      heap="1g",      # (a dozen JVMs run side by side: keep each small)
                                      simulate=(per * 2) // 3 if name in focused else per,
                                      depth=2 * 12 + 3, cfg_text=cfg(gen=True, **kw))) for name, kw in sims]
        pool = []
        for name, f in futs:
            g = f.result()
            if not g["ok"]:
                raise vlib.Infra("behaviour simulation %s failed: %s %s" % (name, g["invariant"], g["error"]))
            got = [{"cfg": v["cfg"], "hist": v["hist"]} for tag, v in g["printed"] if tag == "BEH"]
            if not got:
                raise vlib.Infra("TLC produced no behaviours in %s (see %s)" % (name, g["dir"]))
            ctx.log("%s: %d histories in %.1fs" % (name, len(got), g["wall"]))
            pool += got
        pool = dedup(pool)
        ctx.cov["generated_histories"] = len(pool)
        behs, counts = select(ctx, pool, 5000 if thorough else 420, 60 if thorough else 14)
    r = fut_mc.result()
    if not r["ok"]:
        raise vlib.Infra("TLC did not accept Auth.tla: invariant=%s error=%s (see %s/tlc.out)" % (
            r["invariant"], r["error"], r["dir"]))
    ctx.cov["states"] = r["distinct"]
    ctx.cov["transitions"] = r["generated"]
    ctx.cov["model_depth"] = r["depth"]
    ctx.log("TLC exhaustive: %d distinct states, %d transitions, depth %d, %.1fs" % (
        r["distinct"], r["generated"], r["depth"], r["wall"]))
    for d, f in fut_asis.items():
        ra = f.result()
        if ra["invariant"] != "NoViolation":
            raise vlib.Infra("as-is model (%s) does not violate NoViolation: the invariant is vacuous "
                             "(%s, see %s)" % (d, ra["error"], ra["dir"]))
    if fut_asis:
        ctx.cov["asis_counterexamples_found"] = ALL_DEVS
    ctx.log("%d histories to replay" % len(behs))

    # ---- replay on the real code --------------------------------------------------------
    binary = fut_build.result()
    pool_ex.shutdown()
    events = ctx.run_shards(binary, [strip(b) for b in behs])
    by_id = {b["id"]: b for b in behs}

    # binding self-test: a corrupted and a truncated copy of a recorded trace must be rejected
    selftest = {}
    if not replay:
        by_t0 = {}
        for e in events:
            by_t0.setdefault(e["t"], []).append(e)
        for t, evs in sorted(by_t0.items()):
            if evs[0]["e"] != "Cfg" or evs[0]["map"] not in ("none", "identity"):
                continue
            k = next((i for i, e in enumerate(evs) if e["e"] == "Auth" and e["ok"] and e["mech"] == "PLAIN"
                      and e["az"] in ("empty", "same")), None)
            if k is None:
                continue
            muts = [i for i in range(k) if evs[i]["e"] in ("Create", "SetPw", "Delete") and evs[i]["res"] == "ok"]
            if len(muts) != 1 or evs[muts[0]]["pw"] != evs[k]["pw"] or evs[muts[0]]["sp"]["u"] != evs[k]["sp"]["u"]:
                continue
            s = muts[0]
            n = len(selftest) // 2
            c1 = [dict(e, t=900001 + n) for e in evs]
            c1[k] = dict(c1[k], ok=False, id={"u": "-", "v": "-"})     # corrupt one logged field
            c2 = [dict(e, t=900101 + n) for e in evs]
            del c2[s]                                                  # drop one event
            events = events + c1 + c2
            selftest[900001 + n] = ("corrupt-field", t)
            selftest[900101 + n] = ("drop-event", t)
            if len(selftest) >= 8:
                break

    ctx.log("replayed: %d events" % len(events))
    verdicts, by_t = ctx.validate("AuthTrace", None, events, batch=700,
                                  cfg_text=cfg(spec="TSpec", norms=["auto", "precis_casefold"], tbls=["mem", "sql"], devs=open_devs,
                                               maps=ALL_MAPS, pws=ALL_PWS, ux=ALL_UX, doms=["ascii", "idn"],
                                               emailv=EMAIL_VARIANTS, tail=TRACE_TAIL))

    ctx.log("traces validated by TLC")
    ok = drift = known_traces = 0
    judged = set()
    preds = {}
    strict_id = 0
    for t, recs in sorted(verdicts.items()):
        rec = recs[0]
        if t in selftest:
            orig = verdicts[selftest[t][1]][0]
            if orig["viol"] or orig["drift"]:
                continue          # a mutant got the original wrong; its copies prove nothing
            if not rec["viol"] and not rec["drift"]:
                raise vlib.Infra("binding self-test failed: %s trace was accepted" % selftest[t][0])
            judged.add(selftest[t][0])
            continue
        for e in by_t[t]:
            if e["e"] == "AuthPair" and e["pok"] and e["lok"] and e["pid"] != e["lid"]:
                strict_id += 1
        if rec["viol"]:
            dl = {}
            for d in rec["dlog"]:
                dl.setdefault(d["seq"], set()).add(d["d"])
            unexplained, hits = [], set()
            for v in rec["vlog"]:
                fs = [f for f in open_f if f["match"]["deviation"] in dl.get(v["seq"], ())
                      and v["p"] in f["match"]["predicates"]]
                if fs:
                    for f in fs:
                        hits.add((f["id"], f["what"]))
                else:
                    unexplained.append(v)
            if unexplained:
                names = sorted({v["p"] for v in unexplained})
                for v in names:
                    preds[v] = preds.get(v, 0) + 1
                first = min(v["seq"] for v in unexplained)
                what = "authentication violates %s at event %d: %s" % (
                    ",".join(names), first, json.dumps(next(e for e in by_t[t] if e["seq"] == first), sort_keys=True))
                ctx.violation(what, {"property": "C14", "behaviour": strip(by_id[t]), "trace": by_t[t],
                                     "violated": names, "how": "bin/check C14 --replay <this file>"})
            else:
                known_traces += 1
                for fid, w in sorted(hits):
                    ctx.known(fid, w)
        elif rec["drift"]:
            drift += 1
            print("DRIFT property=C14 trace=%d first-unexplained-seq=%s %s" % (
                t, rec["driftAt"], json.dumps(next((e for e in by_t[t] if e["seq"] == rec["driftAt"]), None),
                                              sort_keys=True)))
        else:
            ok += 1
    if strict_id:
        print("OBSERVATION property=C14 PLAIN and LOGIN reported byte-different spellings of the same account "
              "in %d exchanges (PLAIN reports the name as typed, LOGIN the normalised name); not a violation "
              "under the reading 'same identity up to normalisation'" % strict_id)
    if selftest:
        ctx.cov["binding_selftest"] = "copies of accepted traces rejected by the trace spec: " + ",".join(sorted(judged))
    ctx.cov["traces_validated_against_impl"] = ok
    ctx.cov["traces_with_known_findings_only"] = known_traces
    ctx.cov["drift_traces"] = drift
    ctx.cov["evaluations"] = len(behs)
    ctx.cov["distinct_nontrivial"] = sum(1 for b in behs if "hit" in b.get("_tags", classes(b)))
    ctx.cov["class_counts"] = counts
    ctx.cov["strict_identity_differences"] = strict_id
    ctx.cov["rule"] = ("histories (<= 12 operations) = complete behaviours of Auth.tla printed by TLC -simulate under nine "
                       "constant sets (dense passwords, long passwords, gate, sql table, regexp maps anchored by full_match "
                       "with names that contain a covered name, password twins under NFC/space/case/width/trim preparation, "
                       "e-mail shaped user on an IDN with A-label spellings and deviation-character twins, steered, full), "
                       "de-duplicated; seeded sample with a "
                       "quota per structural class (normalisation, stale password, deleted account, authzid kinds, maps, "
                       "PLAIN/LOGIN pair, bcrypt/argon2, MAIL before/after AUTH, password twin tried after Create/SetPw, "
                       "uncovered name under each regexp map, A-label spelling per mechanism); non-trivial = some authentication "
                       "supplies the password currently set for some account")
    ctx.cov["violated_predicates"] = preds
    ctx.cov["open_deviations"] = open_devs
    for b in behs[:3]:
        ctx.cov["samples"].append({"behaviour": strip(b), "trace": by_t.get(b["id"], [])[:30]})
    ctx.cov["exhaustive"] = False
    ctx.assumptions += [
        "spelling variants (upper case, NFD, full-width) are strings RFC 8265 UsernameCaseMapped maps to the plain form; "
        "the harness only translates identifiers to strings and back by exact comparison",
        "the A-label spellings of the e-mail shaped user are offered only under auth_map_normalize auto (e-mail aware) and "
        "only to the SASL front-end; password identifiers are distinct octet strings, also the pairs a PRECIS/NFC/case/"
        "width/trim preparation would equate; a regexp map with full_match covers a name only if the whole name matches",
        "the credential table is auth.pass_table over an in-memory module.MutableTable with injectable write failures",
        "bcrypt cost 4 / argon2 t=1,m=64KiB for CreateUserHash; SetUserPassword uses the code's own default cost",
        "identity agreement of PLAIN and LOGIN is read as 'same account up to normalisation'",
        "TLC, CommunityModules Json reader, go-sasl client, go1.26 toolchain",
    ]


META = {
    "engine": "authcheck",
    "level": "model_checking",
    "technique": "TLA+ spec Auth.tla (credential table automaton + PLAIN/LOGIN observers + submission gate) model-checked "
                 "by TLC; TLC-generated histories replayed on the real pass_table / SASLAuth.CreateSASL / submission "
                 "endpoint; recorded traces validated against AuthTrace.tla (property predicates in AuthObs.tla)",
    "text": "TLC visits every state of the credential-table automaton (2 accounts x passwords x hash scheme, every "
            "create/set-password/delete with every refusal cause, PLAIN/LOGIN with every spelling, authzid kind and "
            "each of 14 user-name maps, the submission connection) and checks the C14 predicates in every state; the "
            "same predicates are evaluated by TLC over traces recorded from the real code driven with TLC-simulated "
            "histories of up to 12 operations (420 in quick, 5000 in thorough).",
    "note": "Histories beyond the exhaustive bound are sampled (simulation), not enumerated; the table backend is an "
            "in-memory MutableTable; sha256 is not compiled into pass_table outside its tests, so the schemes are "
            "bcrypt and argon2; trusted: TLC, the harness, Go toolchain.",
    "design_ref": "DESIGN.md section 5 C14",
}
