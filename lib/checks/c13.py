"""C13 - DANE authentication accepts only a matching TLSA record and fails closed.

(S) spec/Dane.tla: input space (TLSA RRsets x certificate chains x handshake x lookup /
    discovery outcome), the property as named predicates Prop, the RFC 7672 procedure Rule.
(T) TLC enumerates every input row, checks Prop(in, Rule(in)) and Rule's exactness, prints rows.
(B) every row is run through the real verifyDANE / daneDelivery.CheckConn / discoverTLSA
    (harness/danecheck, certificate chains generated with crypto/x509, mock DNSSEC server);
    spec/DaneTrace.tla evaluates Prop on what the code answered.
"""
import json
import os
import shutil

import vlib
import vtable

MC_CFG = """SPECIFICATION Spec
CONSTANTS
  Salts = {%(salts)s}
  MaxRecs = 4
  Gen = %(gen)s
INVARIANTS RuleSatisfiesProp RuleExact TypeOK
CONSTRAINT Emit
CHECK_DEADLOCK FALSE
"""

TRACE_CFG = """SPECIFICATION TSpec
CONSTANTS
  Salts = {0}
  MaxRecs = 4
  Gen = FALSE
CHECK_DEADLOCK FALSE
POSTCONDITION Post
"""


EXPORTS = ("internal/target/remote/verif_export_dane.go", "internal/target/remote/verif_export_danerounds.go",
           "internal/target/remote/verif_export_danelevels.go")


def nontrivial(row):
    rounds = row["in"]["rounds"]
    if len(rounds) > 1:
        return True
    i = rounds[0]
    return i["lookup"] != "ok" or any(c != "UN" for c in row["cls"][0]) or bool(i["recs"] and not i["hs"])


def pick(o):
    return [{k: r[k] for k in ("auth", "refuse", "temp")} for r in o["rounds"]]


def run(ctx, replay):
    thorough = ctx.tier == "thorough"
    # ---- (T) + rows ---------------------------------------------------------
    if replay:
        obj = json.load(open(replay))
        rows = [obj["row"]]
        rows[0]["id"] = 1
    else:
        salts = range(ctx.seed, ctx.seed + (6 if thorough else 1))
        r = ctx.tlc_expect_ok("Dane", None, name="mc", workers=8, timeout=1500,
                              cfg_text=MC_CFG % dict(salts=", ".join(str(s) for s in salts), gen="TRUE"))
        rows = vtable.rows_from(r)
        if len(rows) != r["distinct"]:
            raise vlib.Infra("TLC printed %d rows for %d states" % (len(rows), r["distinct"]))
        ctx.cov["states"] = r["distinct"]
        ctx.cov["transitions"] = r["generated"]
        ctx.cov["model_depth"] = r["depth"]
        ctx.log("TLC: %d input rows, PropH(in, RuleH(in)) and RuleExact hold on all, %.1fs" % (r["distinct"], r["wall"]))
    by_id = {row["id"]: row for row in rows}

    # ---- (B) the real code on every row -------------------------------------------
    # a scratch tree (VERIF_REPO) made from a commit lacks export shims that are not committed yet:
    # they are add-only, build-tag guarded files, so the ones of /repo are put next to the code under test
    if ctx.repo != "/repo":
        for rel in EXPORTS:
            src, dst = os.path.join("/repo", rel), os.path.join(ctx.repo, rel)
            if os.path.exists(src) and not os.path.exists(dst):
                shutil.copy(src, dst)
    binary = ctx.build_harness("danecheck")
    items = [{"id": row["id"], "in": row["in"]} for row in rows]
    # rows whose chains are also valid under the platform trust store run in processes that install the
    # generated CA as platform root set (x509.SetFallbackRoots is per process)
    sys_ids = {row["id"] for row in rows if row["in"].get("sys")}
    events = []
    for flag, part in (("0", [it for it in items if it["id"] not in sys_ids]),
                       ("1", [it for it in items if it["id"] in sys_ids])):
        if part:
            events += ctx.run_shards(binary, part, timeout=1200, name="replay-sys" + flag,
                                     env_extra={"VERIF_SYSROOTS": flag, "GODEBUG": "x509usefallbackroots=1"})
    events.sort(key=lambda e: (e["t"], e["seq"]))
    if len(events) != len(rows):
        raise vlib.Infra("harness answered %d of %d rows" % (len(events), len(rows)))
    ev_by_t = {e["t"]: e for e in events}
    for e in events:
        if e["out"].get("infra"):
            raise vlib.Infra("row %d: %s" % (e["t"], e["out"]["infra"]))

    # binding self-test: forged outputs must be rejected by TLC
    selftest = {}
    if not replay:
        def forge(t, pred, k, **chg):
            # built from the row and the rule's output only: independent of what the code did;
            # round k (from the end) of the history is altered
            for e in events:
                row = by_id[e["t"]]
                if pred(row):
                    f = json.loads(json.dumps(e))
                    f["t"] = t
                    for j, x in enumerate(row["exp"]):
                        f["out"]["rounds"][j].update(x)
                    f["out"]["rounds"][k].update(chg)
                    return f
            return None
        one = lambda row: len(row["in"]["rounds"]) == 1
        r0 = lambda row: row["in"]["rounds"][0]
        forged = [
            (900001, "refusal dropped", forge(900001, lambda row: one(row) and row["exp"][0]["refuse"] and r0(row)["hs"],
                                              0, refuse=False)),
            (900002, "authentication invented", forge(900002, lambda row: one(row) and not row["exp"][0]["auth"]
                                                      and not row["exp"][0]["refuse"] and r0(row)["hs"], 0, auth=True)),
            (900003, "refusal without usable records", forge(900003, lambda row: one(row) and not row["exp"][0]["auth"]
                                                             and not row["exp"][0]["refuse"] and r0(row)["hs"]
                                                             and r0(row)["recs"], 0, refuse=True)),
            # a later round answered with the first MX's verdict
            (900004, "second MX judged by the first MX's records", forge(
                900004, lambda row: row["in"]["mode"] == "seq" and len(row["in"]["rounds"]) == 2
                and row["exp"][0]["auth"] and row["exp"][1]["refuse"], 1, auth=True, refuse=False)),
        ]
        for t, what, f in forged:
            if f is None:
                raise vlib.Infra("binding self-test: no base row for '%s'" % what)
            selftest[t] = what
            events = events + [f]

    verdicts, accepted = vtable.validate_rows(ctx, "DaneTrace", TRACE_CFG, events, batch=8000, par=4)

    for t, what in selftest.items():
        if t not in verdicts or not verdicts[t]["viol"]:
            raise vlib.Infra("binding self-test failed: forged row (%s) was accepted" % what)
        del verdicts[t]
    if selftest:
        ctx.cov["binding_selftest"] = "forged rows rejected: " + "; ".join(selftest.values())

    drift = 0
    preds = {}
    for t, v in sorted(verdicts.items()):
        row, ev = by_id[t], ev_by_t[t]
        if v["viol"]:
            for p in v["viol"]:
                preds[p] = preds.get(p, 0) + 1
            what = "DANE answer violates %s in round(s) %s: in=%s out=%s" % (
                ",".join(sorted(v["viol"])), sorted(v.get("rounds", [])),
                json.dumps(row["in"], sort_keys=True), json.dumps(pick(ev["out"])))
            ctx.violation(what, {"property": "C13", "row": row, "out": ev["out"], "violated": sorted(v["viol"]),
                                 "rounds": sorted(v.get("rounds", [])),
                                 "how": "bin/check C13 --replay <this file>"})
        else:
            drift += 1
            if drift <= 10:
                print("DRIFT property=C13 row=%d rounds=%s in=%s out=%s expected=%s" % (
                    t, sorted(v.get("rounds", [])), json.dumps(row["in"], sort_keys=True),
                    json.dumps(pick(ev["out"])), json.dumps(row.get("exp"))))
    ctx.cov["traces_validated_against_impl"] = accepted
    ctx.cov["drift_traces"] = drift
    ctx.cov["evaluations"] = len(rows)
    ctx.cov["distinct_nontrivial"] = sum(1 for row in rows if nontrivial(row))
    ctx.cov["discovery_rows"] = sum(1 for row in rows if row["in"]["rounds"][0]["lookup"] in ("disc", "target"))
    ctx.cov["platform_trusted_chain_rows"] = len(sys_ids)
    ctx.cov["cname_rows"] = sum(1 for row in rows if row["in"]["rounds"][0]["disc"].get("cname", "-") != "-")
    ctx.cov["remote_target_rows"] = sum(1 for row in rows if row["in"]["rounds"][0]["lookup"] == "target")
    ctx.cov["wire_rows"] = sum(1 for row in rows if row["in"]["rounds"][0]["lookup"] == "wire")
    # dimensions the rule is independent of, rotated over the rows that reach the real discovery / TLS client
    spell = {"af": {}, "rc": {}, "srv": {}, "hops": {}, "target_chain": {}, "target_no_tls": {}, "target_sys": 0}
    for row in rows:
        for rd in row["in"]["rounds"]:
            if rd["lookup"] not in ("disc", "target", "wire"):
                continue
            for k in ("af", "rc", "srv", "hops"):
                v = str(rd["disc"].get(k))
                spell[k][v] = spell[k].get(v, 0) + 1
            if rd["lookup"] == "target":
                spell["target_chain"][rd["chain"]] = spell["target_chain"].get(rd["chain"], 0) + 1
                spell["target_no_tls"][rd.get("nt", "-")] = spell["target_no_tls"].get(rd.get("nt", "-"), 0) + 1
                spell["target_sys"] += 1 if row["in"].get("sys") else 0
    ctx.cov["rounds_by_spelling"] = spell
    ctx.cov["rows_by_incoming_levels"] = {}
    for row in rows:
        for rd in row["in"]["rounds"]:
            k = rd["mxl"] + "/" + rd["tll"]
            ctx.cov["rows_by_incoming_levels"][k] = ctx.cov["rows_by_incoming_levels"].get(k, 0) + 1
    ctx.cov["history_rows"] = {"seq2": sum(1 for row in rows if row["in"]["mode"] == "seq" and len(row["in"]["rounds"]) == 2),
                               "seq3": sum(1 for row in rows if row["in"]["mode"] == "seq" and len(row["in"]["rounds"]) == 3),
                               "overlap2": sum(1 for row in rows if row["in"]["mode"] == "overlap")}
    ctx.cov["rule"] = ("rows = states of Dane.tla: every multiset of <=4 record classes (EE/TA/unusable x data "
                       "matching leaf/intermediate/root/nothing) x 5 chains x handshake, concretised over all raw "
                       "usage/selector/matching-type values by rotation (salts), every single raw record, lookup "
                       "outcomes, the discovery table, every RRset also published in a signed zone and fetched through the real "
                       "resolver path (lookup = wire), MX names that are CNAMEs (secure / initial zone only / insecure x TLSA answer "
                       "at the canonical name x at the original name, alias chains of 1 and 2 hops), MX hosts with A only / AAAA only / "
                       "both address families on every row that reaches the real discovery, lookup failures spelled SERVFAIL / REFUSED / "
                       "NOTIMP / FORMERR, a resolver configuration whose first server fails, delivery attempts of the real remote target to an "
                       "IDN MX host (all 5 chains x the decisive records alone and in pairs through the target's own TLS client: "
                       "unauthenticated retry, platform-trusted first handshake, STARTTLS stripped, handshake broken -> plaintext), chains that are also valid under the platform trust store (in.sys), the incoming (MX level, TLS level) of CheckConn rotated over all 9 "
                       "combinations and fully crossed with the decisive record situations, and histories of 2 and 3 MX candidates (9 situations each) served "
                       "by one delivery object, in order and with an abandoned first attempt whose lookup answers late; "
                       "distinct by construction (TLC states); non-trivial = a history of several MXs, a usable record, "
                       "records without a handshake, or a lookup/discovery outcome other than ok")
    ctx.cov["violated_predicates"] = preds
    ctx.cov["exhaustive"] = True
    raw_both = sum(1 for e in ev_by_t.values() for r in e["out"]["rounds"] if r.get("override") and r.get("rawErr"))
    ctx.cov["verifyDANE_override_true_with_error"] = raw_both
    if raw_both:
        ctx.notes.append("OBSERVATION: verifyDANE returned overridePKIX=true together with an error on %d rows "
                         "(EE records only, none matching); CheckConn refuses, so no authentication results" % raw_both)
    hist = [row for row in rows if len(row["in"]["rounds"]) > 1]
    for row in rows[:1] + rows[len(rows) // 2: len(rows) // 2 + 2] + hist[:1] + hist[-1:]:
        ctx.cov["samples"].append({"row": row, "out": ev_by_t[row["id"]]["out"]})
    ctx.assumptions += [
        "certificate chains are generated by the harness (ECDSA P-256, crypto/x509); association data of "
        "out-of-range selector/matching-type records is that of the nearest defined combination",
        "without a handshake the connection state carries no peer certificates",
        "discovery rows and histories use the repo's own mock DNS server (go-mockdns) over loopback UDP behind a gate "
        "that can hold the answers about one MX; the order of concurrent lookups is decided by that gate and observed "
        "on the lookup-result holders (export shim), never by a timer",
        "rows with in.sys run in processes whose platform root set is the generated CA (x509.SetFallbackRoots)",
        "remote-target rows: scripted SMTP server (harness/scripted), probe policies before and after mx_auth.dane "
        "observe the TLS level; 'authenticated by DANE' = authenticated after it and not before it (in processes where "
        "the chain is platform-trusted a valid chain arrives authenticated, so those rows pair valid chains only with "
        "records that cannot authenticate)",
        "the wrong-name leaf carries other.example.invalid, the recipient domains of the rows and the client's own host "
        "name: every name at hand except the MX host name",
        "IPv6-only / dual-stack MX hosts exist only in DNS (AAAA ::1); connections of target rows are dialled by name",
        "a 'failover' resolver configuration is 127.0.0.2 (answers SERVFAIL to everything) followed by the real mock server; "
        "a history runs under the configuration of its first round",
        "every MX of a history has its own name (mx<k>.example.invalid), leaf certificate and TLSA RRset",
        "TLC 1.8.0, CommunityModules Json",
    ]


META = {
    "engine": "danecheck",
    "level": "model_checking",
    "technique": "TLA+ spec Dane.tla (property predicates + RFC 7672 rule) enumerated by TLC; every row run through "
                 "the real verifyDANE/daneDelivery.PrepareConn/CheckConn/discoverTLSA with generated certificate chains, "
                 "histories of several MXs on one delivery object; "
                 "recorded answers evaluated by TLC (DaneTrace.tla)",
    "text": "TLC enumerates the whole input table of Dane.tla (all multisets of up to 4 TLSA record classes x 5 "
            "certificate chains x handshake flag, every raw usage/selector/matching-type value incl. out-of-range, "
            "lookup and discovery outcomes (A-only / AAAA-only / dual-stack MX hosts, CNAME chains, failure response codes, "
            "resolver failover), delivery attempts of the real remote target over every chain, histories of 2-3 MX candidates on one delivery object incl. an abandoned "
            "attempt whose lookup answers late), checks the property predicates on the documented rule for every row, "
            "and evaluates the same predicates on the answer of the real code for every row (both tiers run all "
            "rows; thorough uses 6 concretisation salts).",
    "note": "X.509 path building itself is Go's crypto/x509 (trusted); the model abstracts a chain to which "
            "certificates are presented, which are CAs, and whether the leaf is valid for the MX name.",
    "design_ref": "DESIGN.md section 5 C13",
}
