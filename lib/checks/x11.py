"""X11 - TLS certificates loaded from files are served consistently; the `tls` / `tls_client`
directives configure exactly what they say.

(T) TLC checks TlsLoader.tla exhaustively: every interleaving of the file reads of loadCerts() run by
    the ticker goroutine and by the reload event, the swap of the certificates, ticks, Close and an
    environment that deploys new pairs (certificate first or key first), renews, rewrites in place,
    removes files or makes them unreadable, inside the bound; the predicates of TlsLoaderObs.tla are
    evaluated in every state.  With the named deviation of the code on HEAD switched on the same
    invariant must produce a counterexample.
(B) TLC-generated behaviours are replayed on the real tls.loader.file behind the real `tls` directive,
    working on real PEM files; the reads of tls.LoadX509KeyPair go through an overlay shim that parks
    the loader's goroutines before each read and before the swap, time is a synctest bubble's clock,
    and after every step one real TLS handshake per SNI name tells which certificate is served.  The
    recorded traces are validated against TlsLoaderTrace.tla (conformance with the as-is design + the
    predicates).
(B2) pattern B for the directives: TLC enumerates the rows of TlsLoaderCfg.tla (tls off / file /
    self_signed / block without loader / unknown loader x protocols x ciphers x curves, server and
    tls_client), checks the documented rule against the property predicates; every row is run
    through the real SMTP endpoint (EHLO, STARTTLS and real handshakes pinned to one version /
    cipher suite / curve) resp. the real tls_client block; TlsLoaderCfgTrace.tla evaluates the
    predicates on what they did.
"""
import json
import os
import re

import vlib
import vtable

EXT = "X11"

ALL_ENV = ["dep", "depk", "renew", "renewexp", "renewnyv", "inplace", "rm", "unread"]
ALL_SW = ALL_ENV + ["close", "slow"]
ALL_INIT = ["good", "nocert", "nokey", "mismatch", "half", "unread", "expired"]

# predicates each named deviation is allowed to explain
DEV_PREDS = {
    "LostUpdate": {"ReloadEventIgnored"},
}
ALL_DEVS = sorted(DEV_PREDS)
ROW_DEVS = ["ClientDefaultMin12", "NoLoaderAccepted"]


def tla_set(xs, quote=True):
    return "{" + ", ".join(('"%s"' % x) if quote else str(x) for x in xs) + "}"


def cfg(npairs=2, maxtime=2, maxenv=2, maxforce=1, envk=None, initk=ALL_INIT, devs=(), gen=False,
        tail="VIEW View\nINVARIANTS NoViolation TypeOK ServedIsComplete NeverEmptyOnceRunning NeverWild\nCHECK_DEADLOCK FALSE\n",
        spec="Spec"):
    return ("SPECIFICATION %s\nCONSTANTS\n  NPairs = %d\n  MaxTime = %d\n  MaxEnv = %d\n  MaxForce = %d\n"
            "  EnvKinds = %s\n  InitKinds = %s\n  Devs = %s\n  Gen = %s\n%s") % (
        spec, npairs, maxtime, maxenv, maxforce, tla_set(envk if envk is not None else ALL_SW), tla_set(initk),
        tla_set(devs), "TRUE" if gen else "FALSE", tail)


def trace_cfg(npairs, devs):
    return cfg(npairs=npairs, maxtime=1000, maxenv=1000, maxforce=1000, initk=["good"], devs=devs, spec="TSpec",
               tail="CHECK_DEADLOCK FALSE\nPOSTCONDITION Post\n")


def open_findings():
    p = os.path.join(vlib.VERIF, "extensions", "findings.json")
    if not os.path.exists(p):
        return []
    if os.environ.get("VERIF_X11_ASSUME_FIXED"):
        return []      # drills: judge the tree as if every finding had been repaired (nothing is suppressed)
    try:
        data = json.load(open(p))
    except Exception as e:
        raise vlib.Infra("extensions/findings.json is not readable: %s" % e)
    return [f for f in data.get("findings", [])
            if f.get("ext") == EXT and f.get("status", "open") == "open"]


def make_overlay(ctx):
    src = os.path.join(ctx.repo, "internal/tls/file.go")
    try:
        txt = open(src).read()
    except OSError as e:
        raise vlib.Infra("cannot read %s: %s" % (src, e))
    imp = 'import (\n'
    if imp not in txt:
        raise vlib.Infra("internal/tls/file.go has no import block; the tos overlay cannot be generated")
    n = 0
    if "tls.LoadX509KeyPair(" in txt:
        txt = txt.replace("tls.LoadX509KeyPair(", "ttos.LoadX509KeyPair(")
        n += 1
    if "os.ReadFile(" in txt:
        txt = txt.replace("os.ReadFile(", "ttos.ReadFile(")
        n += 1
    if n == 0:
        raise vlib.Infra("internal/tls/file.go reads the files neither with tls.LoadX509KeyPair nor with os.ReadFile; "
                         "the tos overlay cannot be generated")
    i = txt.find("func (f *FileLoader) loadCerts()")
    j = txt.find("f.certsLock.Lock()", i) if i >= 0 else -1
    if j >= 0:
        txt = txt[:j] + 'ttos.Gate("inst")\n\t' + txt[j:]
    # a goroutine blocked on a sync mutex is not durably blocked for testing/synctest: channel-based ones instead
    txt = txt.replace("sync.RWMutex", "ttos.RWMutex").replace("sync.Mutex", "ttos.Mutex")
    if not re.search(r"\bsync\.", txt):
        txt = txt.replace('\t"sync"\n', '')
    txt = txt.replace(imp, imp + '\tttos "github.com/foxcpp/maddy/verifharness/tlsloadercheck/tos"\n', 1)
    if '"os"' in txt and not re.search(r"\bos\.", txt.replace('"os"', "")):
        txt = txt.replace('\t"os"\n', '')
    d = ctx.sub("overlay")
    repl = os.path.join(d, "file_tos.go.txt")
    open(repl, "w").write(txt)
    ov = os.path.join(d, "overlay.json")
    json.dump({"Replace": {src: repl}}, open(ov, "w"))
    return ov


def behaviours_from(r):
    return [{"cfg": val["cfg"], "hist": val["hist"], "viol": val.get("viol", [])}
            for tag, val in r["printed"] if tag == "BEH"]


def nontrivial(b):
    """the files were edited (or the reload event raised / Close called) between two steps of one round of loadCerts"""
    hist = [h for h in b["hist"] if h["a"] != "Tick"]
    calls = ("Read", "Inst")
    for i, h in enumerate(hist):
        if h["a"] in ("EPut", "Force", "Close") and 0 < i < len(hist) - 1:
            before = [x for x in hist[:i] if x["a"] in calls]
            after = [x for x in hist[i + 1:] if x["a"] in calls]
            if before and after and before[-1]["a"] == "Read" and any(
                    a["th"] == before[-1]["th"] for a in after[:4]):
                return True
    return False


SIM_PLANS = [
    # (name, npairs, maxtime, maxenv, maxforce, switches, share)
    ("all", 2, 4, 4, 2, ALL_SW, 0.35),
    ("deploy", 2, 3, 4, 2, ["dep", "depk", "renew", "close", "slow"], 0.20),
    ("faults", 2, 3, 4, 2, ["rm", "unread", "inplace", "renewexp", "renewnyv", "dep", "slow"], 0.20),
    ("single", 1, 4, 4, 2, ALL_SW, 0.25),
]

# exhaustive (breadth-first) generation: ONE edit of every kind / Close / a reload event at every position of
# the reads of the rounds of one tick and one reload event
SWEEPS = [
    ("sweep-edit1", dict(npairs=1, maxtime=2, maxenv=1, maxforce=1, initk=["good"], envk=ALL_ENV + ["slow"])),
    ("sweep-edit2", dict(npairs=2, maxtime=1, maxenv=1, maxforce=0, initk=["good"], envk=ALL_ENV)),
    ("sweep-api", dict(npairs=2, maxtime=1, maxenv=1, maxforce=1, initk=["good"], envk=["renew", "close"])),
    ("sweep-init", dict(npairs=2, maxtime=1, maxenv=0, maxforce=0, envk=[])),
]
# witnesses of the named deviation: behaviours of the as-is design up to the first violated predicate
WITNESS = {
    "LostUpdate": dict(npairs=2, maxtime=1, maxenv=1, maxforce=1, initk=["good"], envk=["renew"]),
}


def model_check(ctx, thorough):
    """(T) exhaustive model checking of the design"""
    if thorough:
        r = ctx.tlc_expect_ok("TlsLoader", None, name="mc", workers=10, timeout=3000,
                              cfg_text=cfg(npairs=2, maxtime=2, maxenv=2, maxforce=1))
        r1 = ctx.tlc_expect_ok("TlsLoader", None, name="mc1", workers=6, timeout=3000,
                               cfg_text=cfg(npairs=1, maxtime=3, maxenv=3, maxforce=2))
        ctx.cov["states_one_pair_three_edits"] = r1["distinct"]
    else:
        r = ctx.tlc_expect_ok("TlsLoader", None, name="mc", workers=6, timeout=600,
                              cfg_text=cfg(npairs=2, maxtime=2, maxenv=1, maxforce=1))
    ctx.cov["states"] = r["distinct"]
    ctx.cov["transitions"] = r["generated"]
    ctx.cov["model_depth"] = r["depth"]
    ctx.log("TLC exhaustive: %d distinct states, %d transitions, depth %d, %.1fs" % (
        r["distinct"], r["generated"], r["depth"], r["wall"]))
    # every named deviation must be found by the same invariant (non-vacuity)
    for dev in ALL_DEVS:
        ra = ctx.tlc("TlsLoader", None, name="asis-" + dev, workers=2, timeout=600,
                     cfg_text=cfg(devs=[dev], tail="VIEW View\nINVARIANTS NoViolation\nCHECK_DEADLOCK FALSE\n", **WITNESS[dev]))
        if ra["invariant"] != "NoViolation":
            raise vlib.Infra("as-is model (%s) no longer violates NoViolation: the invariant is vacuous (%s)" % (
                dev, ra["error"]))
    ctx.cov["asis_counterexamples_found"] = ALL_DEVS


def generate(ctx, thorough):
    """-> list of behaviours; all TLC runs in parallel"""
    from concurrent.futures import ThreadPoolExecutor
    total = 16000 if thorough else 360
    jobs = []
    for name, np_, mt, me, mf, envk, share in SIM_PLANS:
        n = int(total * share)
        jobs.append((name, n, dict(name="sim-" + name, workers=1, timeout=1500, simulate=n, depth=120,
                                   cfg_text=cfg(npairs=np_, maxtime=mt, maxenv=me, maxforce=mf, envk=envk, initk=["good"],
                                                gen=True, tail="CHECK_DEADLOCK FALSE\n"))))
    for name, kw in SWEEPS:
        jobs.append((name, None if thorough else 70,
                     dict(name=name, workers=2, timeout=1500,
                          cfg_text=cfg(gen=True, tail="CHECK_DEADLOCK FALSE\n", **kw))))
    for dev, kw in sorted(WITNESS.items()):
        jobs.append(("witness-" + dev, None if thorough else 40,
                     dict(name="witness-" + dev, workers=2, timeout=1500,
                          cfg_text=cfg(gen=True, devs=[dev], tail="CHECK_DEADLOCK FALSE\n", **kw))))

    def one(job):
        name, n, kw = job
        g = ctx.tlc("TlsLoader", None, **kw)
        if not g["ok"]:
            raise vlib.Infra("behaviour generation %s failed: %s %s" % (name, g["invariant"], g["error"]))
        return name, n, behaviours_from(g)

    with ThreadPoolExecutor(max_workers=6) as ex:
        results = list(ex.map(one, jobs))
    behs, seen = [], set()
    for name, n, got in results:
        got.sort(key=lambda b: json.dumps(b, sort_keys=True))
        ctx.cov.setdefault("generated", {})[name] = len(got)
        if name.startswith("witness-"):
            bad = [b for b in got if b["viol"]]
            good = [b for b in got if not b["viol"]]
            ctx.rng.shuffle(bad)
            ctx.rng.shuffle(good)
            got = bad + good[:len(bad) // 4]
            if n is not None:
                got = bad[:n * 3 // 4] + good[:n // 4]
        else:
            ctx.rng.shuffle(got)
            if n is not None:
                hot = [b for b in got if nontrivial(b)]
                cold = [b for b in got if not nontrivial(b)]
                got = hot[:n * 3 // 4] + cold + hot[n * 3 // 4:]
        k = 0
        for b in got:
            b.pop("viol", None)
            key = json.dumps(b, sort_keys=True)
            if key in seen:
                continue
            seen.add(key)
            b["plan"] = name
            behs.append(b)
            k += 1
            if n is not None and k >= n:
                break
    return behs


def crash_report(ctx, e, behs):
    """a replay shard died: if the Go runtime's report names frames of internal/tls outside the harness, the real
    loader crashed the process - that is a statement about maddy (the ticker goroutine has no recover)"""
    msg = str(e)
    m = re.search(r"(panic: .*|fatal error: .*)", msg)
    if not m or "synctest" in m.group(1) or "deadlock" in m.group(1) or "test timed out" in m.group(1):
        return False
    # the first goroutine listed after the panic line is the one that panicked
    heads = [h.start() for h in re.finditer(r"^goroutine \d+ \[", msg[m.end():], re.M)]
    first = msg[m.end():][:heads[1]] if len(heads) > 1 else msg[m.end():]
    if "github.com/foxcpp/maddy/internal/tls.(*FileLoader)" not in first:
        return False
    ids = re.findall(r"BEGIN (\d+)", msg)
    beh = None
    if ids:
        beh = next((b for b in behs if b["id"] == int(ids[-1])), None)
    pend(ctx, "tls.loader.file crashed the process: " + m.group(1)[:200],
         {"property": EXT, "behaviour": beh, "violated": ["LoaderCrashed"], "report": msg[-3000:],
          "how": "bin/check X11 --replay <this file>"})
    return True


def run_loader(ctx, replay_obj, binary, findings):
    thorough = ctx.tier == "thorough"
    open_devs = sorted(set(f["match"]["dev"] for f in findings) & set(ALL_DEVS))
    by_dev = {f["match"]["dev"]: f for f in findings}
    if replay_obj:
        behs = [replay_obj["behaviour"]]
    else:
        from concurrent.futures import ThreadPoolExecutor
        with ThreadPoolExecutor(max_workers=2) as ex:
            fut = ex.submit(generate, ctx, thorough)      # (B) behaviours out of TLC, while (T) runs
            model_check(ctx, thorough)
            behs = fut.result()
        if not behs:
            raise vlib.Infra("TLC produced no behaviours")
    for i, b in enumerate(behs):
        b["id"] = i + 1
    ctx.log("%d behaviours to replay" % len(behs))

    try:
        events = ctx.run_shards(binary, behs, shards=8)
    except vlib.Infra as e:
        if crash_report(ctx, e, behs):
            return 0
        raise
    by_id = {b["id"]: b for b in behs}

    # binding self-test: a corrupted and a truncated copy of an accepted trace must not be accepted
    selftest = {}
    if not replay_obj:
        for b in behs:
            evs = [e for e in events if e["t"] == b["id"]]
            reads = [e for e in evs if e["e"] == "Read" and e["res"] == "ok" and e["c"]["v"] > 0]
            if b["cfg"]["NPairs"] == 2 and len(reads) >= 2:
                c1 = [json.loads(json.dumps(e)) for e in evs]
                for e in c1:
                    e["t"] = 900001
                for e in c1:
                    if e["e"] == "Read" and e["res"] == "ok" and e["c"]["v"] > 0:
                        e["c"]["v"] += 7                                 # another version was read
                        break
                c2 = [dict(e, t=900002) for e in evs]
                k = next(i for i, e in enumerate(c2) if e["e"] == "Read")
                del c2[k]                                                  # a read went unrecorded
                c3 = [json.loads(json.dumps(e)) for e in evs]
                for e in c3:
                    e["t"] = 900003
                last = [e for e in c3 if e["e"] == "Look"][-1]
                last["sv"]["a"] = 0                                        # a handshake failed
                events = events + c1 + c2 + c3
                selftest = {900001: "corrupt-field", 900002: "drop-event", 900003: "failed-handshake"}
                break

    verdicts, by_t = {}, {}
    from concurrent.futures import ThreadPoolExecutor
    groups = []
    for np_ in sorted(set(b["cfg"]["NPairs"] for b in behs)):
        ids = sorted(b["id"] for b in behs if b["cfg"]["NPairs"] == np_)
        if np_ == 2:
            ids += sorted(selftest)
        per = 1500
        for gi in range(0, len(ids), per):
            groups.append((np_, gi // per, set(ids[gi:gi + per])))
    ev_by_t = {}
    for e in events:
        ev_by_t.setdefault(e["t"], []).append(e)

    def val_group(g):
        np_, gi, ids = g
        evs = [e for t in sorted(ids) for e in ev_by_t.get(t, [])]
        return ctx.validate("TlsLoaderTrace", None, evs, name="trace-N%d-g%d" % (np_, gi),
                            cfg_text=trace_cfg(np_, open_devs), batch=1500)
    with ThreadPoolExecutor(max_workers=6) as ex:
        for v, bt in ex.map(val_group, groups):
            verdicts.update(v)
            by_t.update(bt)

    ok = drift = 0
    preds = {}
    for t, recs in sorted(verdicts.items()):
        if t in selftest:
            if t == 900003:
                if not any("NoCertificate" in r["viol"] for r in recs):
                    raise vlib.Infra("binding self-test failed: a failed handshake was not reported")
            elif any(not r["drift"] for r in recs):
                raise vlib.Infra("binding self-test failed: %s trace was accepted" % selftest[t])
            continue
        viol = sorted(set(v for r in recs for v in r["viol"]))
        conf = [r for r in recs if not r["drift"]]
        if viol:
            # an open finding explains the trace only if the as-is design (with that deviation) follows the
            # trace step by step, the deviation's branch was actually taken, and nothing else is violated
            explained = None
            for r in conf:
                used = set(r.get("devs", []))
                allowed = set()
                for d in used:
                    allowed |= DEV_PREDS.get(d, set())
                if used and used <= set(open_devs) and set(r["viol"]) <= allowed:
                    explained = used
                    break
            if explained:
                for d in sorted(explained):
                    f = by_dev[d]
                    ctx.known(f["id"], f["what"])
                ok += 1
                continue
            for v in viol:
                preds[v] = preds.get(v, 0) + 1
            pend(ctx, "tls.loader.file violates " + ",".join(viol),
                 {"property": EXT, "behaviour": by_id[t], "trace": by_t[t], "violated": viol,
                  "how": "bin/check X11 --replay <this file>"})
        elif conf:
            ok += 1
        else:
            drift += 1
            if drift <= 10:
                print("DRIFT property=%s trace=%d first-unexplained-seq=%s" % (EXT, t, recs[0]["driftAt"]))
    if selftest:
        ctx.cov["binding_selftest"] = "corrupted-field and dropped-event traces rejected, failed handshake reported"
    ctx.cov["behaviours_validated"] = ok
    ctx.cov["drift_traces"] = drift
    ctx.cov["evaluations"] = len(behs)
    ctx.cov["distinct_nontrivial"] = sum(1 for b in behs if nontrivial(b))
    ctx.cov["violated_predicates"] = preds
    ctx.cov["events"] = len(events)
    ctx.cov["handshakes"] = 4 * sum(1 for e in events if e["e"] == "Look")
    for b in behs[:2]:
        ctx.cov["samples"].append({"behaviour": b, "trace": by_t.get(b["id"], [])[:24]})
    return ok


# ---- pattern B: the directives ---------------------------------------------------------------------

ROW_CFG = """SPECIFICATION %(spec)s
CONSTANTS
  Scopes = %(scopes)s
  Depth = %(depth)d
  Devs = %(devs)s
  Gen = %(gen)s
%(tail)s
"""


def row_cfg(spec="Spec", scopes=("server", "client"), depth=1, devs=(), gen=False, tail=""):
    return ROW_CFG % dict(spec=spec, scopes=tla_set(scopes), depth=depth, devs=tla_set(devs),
                          gen="TRUE" if gen else "FALSE", tail=tail)


def run_rows(ctx, replay_obj, binary, findings):
    thorough = ctx.tier == "thorough"
    by_dev = {f["match"]["dev"]: f for f in findings if f["match"]["dev"] in ROW_DEVS}
    if replay_obj:
        rows = [replay_obj["row"]]
        rows[0]["id"] = 1
    else:
        r = ctx.tlc_expect_ok("TlsLoaderCfg", None, name="rows", workers=4, timeout=1200,
                              cfg_text=row_cfg(depth=2 if thorough else 1, gen=True,
                                               tail="INVARIANTS RuleSatisfiesProp\nCONSTRAINT Emit\nCHECK_DEADLOCK FALSE"))
        rows = vtable.rows_from(r)
        if len(rows) != r["distinct"]:
            raise vlib.Infra("TLC printed %d distinct rows for %d states" % (len(rows), r["distinct"]))
        ctx.cov["row_states"] = r["distinct"]
        ctx.log("TLC: %d directive rows; the documented rule satisfies the predicates on all, %.1fs" % (
            r["distinct"], r["wall"]))
        for dev in ROW_DEVS:
            ra = ctx.tlc("TlsLoaderCfg", None, name="rows-asis-" + dev, workers=1, timeout=300,
                         cfg_text=row_cfg(devs=[dev], tail="INVARIANTS AsIsSatisfiesProp\nCHECK_DEADLOCK FALSE"))
            if ra["invariant"] != "AsIsSatisfiesProp":
                raise vlib.Infra("as-is directive model (%s) does not violate the property: predicates vacuous? (%s)" % (
                    dev, ra["error"]))
        if not thorough:
            # quick: the rows that vary one directive at a time and the modes without a block, a seeded sample of the rest
            def must(row):
                i = row["in"]
                return i["mode"] in ("off", "bogus", "odd") or \
                    sum(1 for k in ("protocols", "ciphers", "curves") if i[k] != ["OMIT"]) <= 1
            keep = [row for row in rows if must(row)]
            rest = [row for row in rows if not must(row)]
            cold = [row for row in rest if row["exp"]["err"]]
            hot = [row for row in rest if not row["exp"]["err"]]
            ctx.rng.shuffle(cold)
            ctx.rng.shuffle(hot)
            rows = keep + cold[:300] + hot[:900]
            rows.sort(key=lambda row: row["id"])
    by_id = {row["id"]: row for row in rows}
    items = [{"id": row["id"], "in": row["in"]} for row in rows]
    events = ctx.run_shards(binary, items, test="TestRows", name="rows-replay", shards=8)
    events = [e for e in events if e["e"] == "Row"]
    if len(events) != len(rows):
        raise vlib.Infra("harness answered %d of %d rows" % (len(events), len(rows)))
    ev_by_t = {e["t"]: e for e in events}

    selftest = {}
    if not replay_obj:
        def forge(t, pred, chg):
            for e in events:
                row = by_id[e["t"]]
                if pred(row, e):
                    f = json.loads(json.dumps(e))
                    f["t"] = t
                    chg(f["out"])
                    return f
            return None      # no such row answered like that (a changed tree): that forgery is skipped

        def add_v0(o):
            o["vers"] = sorted(set(o["vers"]) | {0})

        def adv(o):
            o["starttls"] = True
        forged = {
            900001: (forge(900001, lambda row, e: row["in"]["scope"] == "server" and row["in"]["mode"] in ("file", "file2", "self")
                           and row["in"]["protocols"] == ["tls1.2"] and not e["out"]["err"] and 0 not in e["out"]["vers"], add_v0),
                     "TLS 1.0 accepted although protocols tls1.2"),
            900002: (forge(900002, lambda row, e: row["in"]["mode"] == "off" and not e["out"]["err"]
                           and not e["out"]["starttls"], adv),
                     "STARTTLS advertised with tls off"),
        }
        selftest = {t: what for t, (f, what) in forged.items() if f is not None}
        forged = [f for f, _ in forged.values() if f is not None]
        events = events + forged
    tcfg = row_cfg(spec="TSpec", scopes=[], devs=[], tail="  OpenDevs = %s\nCHECK_DEADLOCK FALSE\nPOSTCONDITION Post" % tla_set(sorted(by_dev)))
    tcfg = tcfg.replace("CONSTANTS\n", "CONSTANTS\n", 1)
    verdicts, accepted = vtable.validate_rows(ctx, "TlsLoaderCfgTrace", tcfg, events, name="rows-trace", batch=20000, par=4)
    for t, what in selftest.items():
        v = verdicts.get(t)
        if not v or not v["viol"] or v["devs"]:
            raise vlib.Infra("binding self-test failed: forged row (%s) was accepted or explained by a deviation" % what)
        del verdicts[t]
    drift = 0
    known_rows = {}
    for t, v in sorted(verdicts.items()):
        row, ev = by_id[t], ev_by_t[t]
        devsets = sorted((sorted(d) for d in v["devs"]), key=lambda d: (len(d), d))
        minimal = devsets[0] if devsets else None
        explained = minimal is not None
        if explained and v["viol"]:
            allowed = set()
            for d in minimal:
                allowed |= set(by_dev[d]["match"].get("predicates", []))
            explained = set(v["viol"]) <= allowed
        if v["viol"] and not explained:
            what = "directive row answers against %s: in=%s out=%s" % (
                ",".join(sorted(v["viol"])), json.dumps(row["in"], sort_keys=True)[:300],
                json.dumps(ev["out"], sort_keys=True)[:300])
            pend(ctx, what, {"property": EXT, "row": row, "out": ev["out"], "violated": sorted(v["viol"]),
                             "how": "bin/check X11 --replay <this file>"})
        elif explained:
            for d in minimal:
                f = by_dev[d]
                ctx.known(f["id"], f["what"])
                known_rows[f["id"]] = known_rows.get(f["id"], 0) + 1
        else:
            drift += 1
            if drift <= 10:
                print("DRIFT property=%s row=%d in=%s out=%s expected=%s" % (
                    EXT, t, json.dumps(row["in"], sort_keys=True), json.dumps(ev["out"], sort_keys=True),
                    json.dumps(row.get("exp"), sort_keys=True)))
    ctx.cov["rows_run_through_real_code"] = len(rows)
    ctx.cov["rows_accepted"] = accepted
    ctx.cov["rows_drift"] = drift
    ctx.cov["rows_explained_by_finding"] = known_rows
    ctx.cov["rows_by_scope_mode"] = {}
    for row in rows:
        k = row["in"]["scope"] + "/" + row["in"]["mode"]
        ctx.cov["rows_by_scope_mode"][k] = ctx.cov["rows_by_scope_mode"].get(k, 0) + 1
    if selftest:
        ctx.cov["rows_binding_selftest"] = "forged rows rejected: " + "; ".join(selftest.values())
    if rows:
        row = rows[len(rows) // 2]
        ctx.cov["samples"].append({"row": row, "out": ev_by_t[row["id"]]["out"]})
    return accepted


def run(ctx, replay):
    try:
        run_inner(ctx, replay)
    except vlib.Infra:
        raise
    except Exception as e:       # anything unexpected in the driver says nothing about maddy
        import traceback
        raise vlib.Infra("driver error: %s\n%s" % (e, traceback.format_exc()[-1500:]))


def run_inner(ctx, replay):
    findings = open_findings()
    binary = ctx.build_harness("tlsloadercheck", overlay=make_overlay(ctx))
    if replay:
        obj = json.load(open(replay))
        if "row" in obj:
            run_rows(ctx, obj, binary, findings)
        else:
            if not obj.get("behaviour"):
                raise vlib.Infra("replay file holds neither a row nor a behaviour")
            run_loader(ctx, obj, binary, findings)
        announce(ctx)
        return
    rows_ok = run_rows(ctx, None, binary, findings)
    ok = run_loader(ctx, None, binary, findings)
    ctx.cov["traces_validated_against_impl"] = ok + rows_ok
    ctx.cov["rule"] = ("behaviours = complete behaviours of TlsLoader.tla printed by TLC: breadth-first sweeps (one edit of "
                       "every kind / Close / a reload event at every position of the reads of a tick's and a reload "
                       "event's round; every start-up state), -simulate under four bound/alphabet plans and the as-is "
                       "design's behaviours up to the first violated predicate for the named deviation; sampled in "
                       "quick, sweeps and witnesses complete in thorough; de-duplicated; non-trivial = an edit, the "
                       "reload event or Close arrives between two steps of one round of loadCerts. rows = every state "
                       "of TlsLoaderCfg.tla (sampled in quick)")
    ctx.cov["exhaustive"] = False
    ctx.assumptions += [
        "one os.ReadFile of a certificate or key file is atomic (the files are a few kB, read with one read call)",
        "each pair has one writer whose deployments do not overlap; an in-place writer's intermediate states are "
        "an empty file and a file cut inside the PEM block",
        "Init's own loadCerts is atomic (nobody writes the files while maddy starts)",
        "time is the fake clock of a testing/synctest bubble; one slot = one minute = the ticker's period",
        "EACCES is injected by the shim (the sandbox runs as root); ENOENT comes from the real file system",
        "certificates are self-signed ECDSA P-256; the probing client does not verify the chain (the handshake "
        "signature is verified, so a successful handshake proves the server holds the certificate's key)",
        "ACME (tls.loader.acme) is out of reach offline and not covered",
        "TLC 1.8.0, CommunityModules Json reader",
    ]
    announce(ctx)


def pend(ctx, what, obj):
    if not hasattr(ctx, "x11_pending"):
        ctx.x11_pending = []
    ctx.x11_pending.append((what, obj))


def announce(ctx):
    """report the violations (one artefact per distinct set of violated predicates first: vlib keeps the
    first eight), then the extension findings - as EXT-FINDING, not KNOWN-FINDING"""
    pending = getattr(ctx, "x11_pending", [])
    seen, first, rest = set(), [], []
    for what, obj in pending:
        k = (tuple(obj["violated"]), "row" in obj and obj["row"]["in"]["mode"])
        (rest if k in seen else first).append((what, obj))
        seen.add(k)
    for what, obj in first + rest:
        ctx.violation(what, obj)
    ctx.x11_pending = []
    if ctx.known_seen:
        for fid, what in sorted(ctx.known_seen):
            print("EXT-FINDING: ext=%s %s %s" % (EXT, fid, what))
        ctx.cov["ext_findings_seen"] = sorted(k for k, _ in ctx.known_seen)
        ctx.known_seen = []


META = {
    "engine": "tlsloadercheck",
    "level": "model_checking",
    "technique": "TLA+ spec TlsLoader.tla model-checked by TLC; TLC-generated behaviours replayed on the real "
                 "tls.loader.file behind the real `tls` directive over real PEM files, with the loader's goroutines "
                 "parked before each file read and before the swap, and one real TLS handshake per SNI name after "
                 "every step; recorded traces validated against TlsLoaderTrace.tla (predicates in TlsLoaderObs.tla); "
                 "pattern B rows of TlsLoaderCfg.tla run through the real SMTP endpoint / tls_client block with real "
                 "handshakes and evaluated by TlsLoaderCfgTrace.tla",
    "statement": "For any history of edits to the certificate and key files of a `tls file` loader - deployment of a "
                 "new pair with the certificate replaced before the key or the key before the certificate, renewal "
                 "that keeps the key, rewriting in place, removal, loss of read permission, expired or not yet valid "
                 "certificates, one or two pairs for different names - arriving at any instant, including between any "
                 "two file reads of a reload and while the reload event and the periodic reload run at the same time: "
                 "every TLS handshake is answered, with a certificate whose private key the server holds and that was "
                 "on disk next to that key, as a complete pair, at some instant (never the certificate of one version "
                 "with the key of another, never a partly written file); the pair is chosen by the SNI name and is the "
                 "first one when no name matches; a reload that cannot load every pair changes nothing and is logged; "
                 "once the files have been left unchanged, complete and valid for two minutes (reload is documented as "
                 "once in a minute) the pairs on disk are the ones served, and after the reload event (SIGUSR2) has "
                 "been handled they are served at once; Close returns and the reload event handler returns in every "
                 "state. For the directives: `tls off` never advertises STARTTLS; an endpoint that advertises STARTTLS "
                 "can complete a handshake; the protocol versions, cipher suites (TLS 1.2) and curves a handshake "
                 "succeeds with are exactly the configured ones (documented defaults tls1.0..tls1.3 when not "
                 "configured), for the server and for tls_client blocks; unknown version, cipher, curve or loader names "
                 "and wrong argument counts are configuration errors; `tls self_signed NAMES` serves a certificate "
                 "valid for NAMES.",
    "text": "TLC visits every interleaving of the reads of loadCerts() of both threads with edits, ticks, the reload "
            "event and Close inside the bound (two pairs, horizon 2 minutes, 1-2 edits; one pair with 3 edits in "
            "thorough) and checks the X11 predicates in every state; the as-is deviation must violate them. The same "
            "predicates are evaluated by TLC over traces recorded from the real module driven with TLC-generated "
            "behaviours. The directives are rows of TlsLoaderCfg.tla: TLC checks the documented rule against the "
            "predicates on every row and evaluates the predicates on what the real endpoint / client block did.",
    "note": "Time is a synctest bubble's clock, EACCES is injected and the loader's goroutines are parked by the "
            "overlay shim harness/tlsloadercheck/tos; ACME is not covered; trusted: TLC, the harness, Go toolchain, "
            "crypto/tls.",
    "design_ref": "extensions/X11.md",
}
