"""C16 - error replies are coherent (code classes agree and match the retry decision).

(T) TLC walks every error term of Errors.tla (real constructors nested to depth 4) and
    checks Prop(t, Rule({}, t)): the documented conversions satisfy the property; with
    each deviation of the code as it is switched on the same invariants must fail.
(B) every term printed by TLC (quick: all of depth <= 3 + a seeded sample of depth 4;
    thorough: all) is built with the real primitives and passed through the real
    wrapErr, toSMTPErr, IsTemporary/IsTemporaryOrUnspec and one real queue attempt;
    a go/ast scan turns every SMTPError literal / helper pair of the tree into rows;
    ErrorsTrace.tla evaluates the predicates of Errors.tla on the recorded rows.
"""
import json
import os

import vlib
import vknown

ALL_DEVS = ["EnchAlways5", "QueueDropsEnh", "TempOverride", "Mangle128", "UnspecRealign", "PipelineRejectEnh",
            "MilterCopiesAnyCode"]

MC_CFG = """SPECIFICATION Spec
CONSTANTS
  Devs = {%(devs)s}
  MaxDepth = %(depth)d
  Gen = %(gen)s
INVARIANTS %(inv)s
CHECK_DEADLOCK FALSE
"""

TRACE_CFG = """SPECIFICATION TSpec
CONSTANTS
  Devs = {%(devs)s}
  MaxDepth = 4
  Gen = FALSE
CHECK_DEADLOCK FALSE
POSTCONDITION Post
"""


def q(names):
    return ", ".join('"%s"' % n for n in names)


def site_matches(site, ev):
    for k, v in site.items():
        if ev.get(k) != v:
            return False
    return True


def nontrivial(term):
    return len(term) >= 2


def run(ctx, replay):
    thorough = ctx.tier == "thorough"
    open_devs = vknown.open_deviations("C16")
    open_sites = vknown.open_sites("C16")
    unknown = [d for d in open_devs if d not in ALL_DEVS]
    if unknown:
        raise vlib.Infra("known_findings.d/C16.json names deviations Errors.tla does not have: %s" % unknown)

    lit_only = None
    comps = []
    hists = []
    auths = []
    if replay:
        obj = json.load(open(replay))
        cases = []
        if obj.get("case"):
            c = dict(obj["case"])
            c["id"] = 1
            cases = [c]
        lit_only = obj.get("lit")
        if obj.get("comp"):
            comps = [dict(obj["comp"], id=200000)]
        if obj.get("hist"):
            hists = [{"id": 3000000, "in": obj["hist"]}]
        if obj.get("auth"):
            auths = [{"id": 4000000, "in": obj["auth"]}]
    else:
        # ---- (T) the design satisfies the property on every term ------------
        r = ctx.tlc_expect_ok("Errors", None, name="mc", workers=16, timeout=900,
                              cfg_text=MC_CFG % dict(devs="", depth=4, gen="TRUE",
                                                     inv="Coherent HelpersCoherent Emit EmitComp"))
        ctx.cov["states"] = r["distinct"]
        ctx.cov["transitions"] = r["generated"]
        ctx.cov["model_depth"] = r["depth"]
        terms = [val for tag, val in r["printed"] if tag == "ROW"]
        for tag, val in r["printed"]:
            if tag == "COMP":
                comps = [{"id": 200000 + i, "site": c["site"], "in": c["in"]} for i, c in enumerate(val)]
            if tag == "HIST":
                hists = [{"id": 3000000 + i, "in": h} for i, h in enumerate(
                    sorted(val, key=lambda h: json.dumps(h, sort_keys=True)))]
            if tag == "AUTH":
                auths = [{"id": 4000000 + i, "in": a} for i, a in enumerate(val)]
        if not comps or not hists or not auths:
            raise vlib.Infra("TLC printed no COMP/HIST/AUTH line")
        if len(terms) != r["distinct"]:
            raise vlib.Infra("TLC printed %d rows for %d states" % (len(terms), r["distinct"]))
        ctx.log("TLC exhaustive: %d terms (states), depth %d, %.1fs" % (r["distinct"], r["depth"], r["wall"]))
        # non-vacuity: every deviation of the code as it is must be caught by the invariants
        seen = {}
        for d in ALL_DEVS:
            ra = ctx.tlc("Errors", None, name="asis-" + d, workers=2, timeout=300,
                         cfg_text=MC_CFG % dict(devs=q([d]), depth=2, gen="FALSE",
                                                inv="Coherent HelpersCoherent"))
            if ra["invariant"] is None and "invariant of HelpersCoherent is equal to FALSE" in ra["out"]:
                ra["invariant"] = "HelpersCoherent"     # constant-level invariant: TLC words it differently
            if ra["invariant"] not in ("Coherent", "HelpersCoherent"):
                raise vlib.Infra("as-is model with deviation %s violates nothing (%s %s): the invariant is vacuous"
                                 % (d, ra["invariant"], ra["error"]))
            seen[d] = ra["invariant"]
        ctx.cov["asis_counterexamples"] = seen
        terms.sort(key=lambda t: (len(t), json.dumps(t, sort_keys=True)))
        if thorough:
            chosen = terms
        else:
            small = [t for t in terms if len(t) <= 3]
            big = [t for t in terms if len(t) > 3]
            chosen = small + vlib.sample(ctx.rng, big, 1500)
        cases = [{"id": i + 1, "term": t, "att": True} for i, t in enumerate(chosen)]
        ctx.cov["exhaustive"] = bool(thorough)
    ctx.log("%d terms to replay" % len(cases))

    # ---- (B) real code -----------------------------------------------------------
    binary = ctx.build_harness("errorscheck")
    events = []
    if cases:
        events += ctx.run_shards(binary, cases)
    scan_end = None
    if not replay or lit_only:
        sev = ctx.run_shards(binary, [{"id": 0}], test="TestScan", name="scan",
                             env_extra={"VERIF_SCAN_ROOT": ctx.repo})
        scan_end = [e for e in sev if e["e"] == "ScanEnd"]
        if not scan_end:
            raise vlib.Infra("literal scan did not finish")
        lits = [e for e in sev if e["e"] == "Lit"]
        if lit_only:
            lits = [e for e in lits if e["file"] == lit_only.get("file")]
        events += lits
    if comps:
        events += ctx.run_shards(binary, comps, test="TestComp", name="comp", shards=1)
    if hists:
        events += ctx.run_shards(binary, hists, test="TestHist", name="hist", shards=1)
    if auths:
        events += ctx.run_shards(binary, auths, test="TestAuth", name="auth", shards=1)
    by_case = {c["id"]: c for c in cases}
    comp_by_id = {c["id"]: c for c in comps}

    # binding self-test: a recorded row with one flipped code class / a leaked text
    selftest = {}
    if not replay:
        base = next((e for e in events if e["e"] == "Row" and len(e["in"]["t"]) == 1
                     and e["in"]["t"][0]["k"] == "plain"), None)
        if base:
            c1 = json.loads(json.dumps(base))
            c1["t"] = 900001
            c1["out"]["e"][0]["code"] = 251
            c2 = json.loads(json.dumps(base))
            c2["t"] = 900002
            c2["out"]["e"][1]["msg"] = [ord(ch) for ch in "oops: kaboom"]
            events = events + [c1, c2]
            selftest = {900001: "EClass", 900002: "NoLeak"}

    verdicts, by_t = ctx.validate("ErrorsTrace", None, events, batch=4000, timeout=2400,
                                  cfg_text=TRACE_CFG % dict(devs=q(sorted(open_devs))))

    ok = drift = 0
    preds = {}
    lit_rows = lit_viol = 0
    comp_rows = comp_viol = 0
    fam_rows = {"Hist": 0, "Auth": 0}
    fam_viol = {"Hist": 0, "Auth": 0}
    # literal rows first: the driver keeps artefacts for the first few violations only
    for t, recs in sorted(verdicts.items(), key=lambda kv: (kv[0] < 1000000, kv[0])):
        rec = recs[0]
        ev = by_t[t][0]
        viol = sorted(rec["viol"])
        devs = sorted(rec.get("devs", []))
        if t in selftest:
            if selftest[t] not in viol or devs != ["UNEXPLAINED"]:
                raise vlib.Infra("binding self-test failed: corrupted row (%s) got viol=%s devs=%s"
                                 % (selftest[t], viol, devs))
            continue
        if ev["e"] == "ScanEnd":
            continue
        if ev["e"] == "Lit":
            lit_rows += 1
        if ev["e"] == "Comp":
            comp_rows += 1
        if ev["e"] in fam_rows:
            fam_rows[ev["e"]] += 1
        if not viol:
            if rec["drift"]:
                drift += 1
                print("DRIFT property=C16 row=%d (output differs from the documented rule, no predicate false)" % t)
            else:
                ok += 1
            continue
        for v in viol:
            preds[v] = preds.get(v, 0) + 1
        if ev["e"] == "Lit":
            lit_viol += 1
            where = "%s:%d %s %s" % (ev["file"], ev["line"], ev.get("code"), ev.get("enh"))
            if ev["kind"] in ("lit", "dyncode"):
                hit = [f for f in open_sites if site_matches(f["match"]["site"], ev)]
                if hit:
                    ctx.known(hit[0]["id"], hit[0]["what"])
                    continue
            elif devs and "UNEXPLAINED" not in devs:
                for d in devs:
                    ctx.known(open_devs[d]["id"], open_devs[d]["what"])
                continue
            ctx.violation("SMTP error literal/helper pair incoherent: " + where,
                          {"property": "C16", "lit": {k: ev.get(k) for k in
                                                      ("file", "line", "kind", "code", "enh", "temp", "type")},
                           "violated": viol, "how": "bin/check C16 --replay <this file>"})
            continue
        if devs and "UNEXPLAINED" not in devs:
            for d in devs:
                ctx.known(open_devs[d]["id"], open_devs[d]["what"])
            continue
        if ev["e"] == "Hist":
            fam_viol["Hist"] += 1
            o = ev["out"]
            ctx.violation("queue history max_tries=%d %s (failing at %s%s): %d attempt(s), report %s %s (Status %s) "
                          "violates %s" % (
                ev["in"]["mt"], json.dumps(ev["in"]["seq"]), ev["in"].get("pt", "rcpt"),
                ", queue restarted between the attempts" if ev["in"].get("rs") else "",
                o["attempts"], o["dcode"], o["denh"], o["status"], ",".join(viol)),
                {"property": "C16", "hist": ev["in"], "row": ev, "violated": viol,
                 "how": "bin/check C16 --replay <this file>"})
            continue
        if ev["e"] == "Auth":
            fam_viol["Auth"] += 1
            ctx.violation("AUTH %s with a provider failing with %s answered %d %s violates %s" % (
                ev["in"]["mech"], json.dumps(ev["in"]["term"]), ev["out"]["code"], ev["out"]["text"], ",".join(viol)),
                {"property": "C16", "auth": ev["in"], "row": ev, "violated": viol,
                 "how": "bin/check C16 --replay <this file>"})
            continue
        if ev["e"] == "Comp":
            comp_viol += 1
            c = comp_by_id[ev["case"]]
            ctx.violation("computed reply incoherent: %s %s -> %s %s temporary=%s" % (
                ev["site"], json.dumps(ev["in"]), ev["out"]["code"], ev["out"]["enh"], ev["out"]["temp"]),
                {"property": "C16", "comp": {"site": c["site"], "in": c["in"]}, "row": ev,
                 "violated": viol, "how": "bin/check C16 --replay <this file>"})
            continue
        case = by_case.get(t, {"term": ev["in"]["t"], "att": ev["out"]["att"]["ran"]})
        ctx.violation("error term %s violates %s" % (json.dumps(ev["in"]["t"]), ",".join(viol)),
                      {"property": "C16", "case": {"term": case["term"], "att": case.get("att", True)},
                       "row": ev, "violated": viol, "how": "bin/check C16 --replay <this file>"})

    if selftest:
        ctx.cov["binding_selftest"] = "row with flipped code class and row with leaked text rejected as UNEXPLAINED"
    n_terms = len(cases)
    ctx.cov["traces_validated_against_impl"] = ok
    ctx.cov["drift_traces"] = drift
    ctx.cov["evaluations"] = n_terms + lit_rows + comp_rows + fam_rows["Hist"] + fam_rows["Auth"]
    ctx.cov["history_rows"] = fam_rows["Hist"]
    ctx.cov["history_rows_violating"] = fam_viol["Hist"]
    ctx.cov["auth_reply_rows"] = fam_rows["Auth"]
    ctx.cov["auth_reply_rows_violating"] = fam_viol["Auth"]
    ctx.cov["computed_reply_rows"] = comp_rows
    ctx.cov["computed_reply_rows_violating"] = comp_viol
    ctx.cov["computed_reply_sites"] = sorted(set(c["site"] for c in comps))
    ctx.cov["distinct_nontrivial"] = sum(1 for c in cases if nontrivial(c["term"]))
    ctx.cov["terms_replayed"] = n_terms
    ctx.cov["queue_attempts"] = sum(1 for e in events if e["e"] == "Row" and e["out"]["att"]["ran"] and e["t"] < 900000)
    ctx.cov["literal_rows"] = lit_rows
    ctx.cov["literal_rows_violating"] = lit_viol
    if scan_end:
        ctx.cov["scan_files"] = scan_end[0]["files"]
        ctx.cov["scan_sites"] = scan_end[0]["sites"]
        ctx.cov["scan_sites_dynamic"] = sum(1 for e in events if e["e"] == "Lit" and e["kind"] == "dynamic")
    ctx.cov["violated_predicates"] = preds
    ctx.cov["rule"] = ("terms = states of Errors.tla (leaf x up to 3 wrappers over the real constructors), all of "
                       "them in thorough, all of depth <= 3 plus a seeded sample of 1500 of depth 4 in quick; "
                       "non-trivial = at least one wrapper; literal rows = every SMTPError composite literal of "
                       "the non-test files (helper pairs evaluated on a temporary and a permanent error)")
    rows = [e for e in events if e["e"] == "Row" and e["t"] < 900000]
    for e in (rows[:1] + rows[len(rows) // 2:len(rows) // 2 + 1] + rows[-1:]):
        ctx.cov["samples"].append({"term": e["in"]["t"], "recorded": e["out"], "verdict": verdicts[e["t"]][0]})
    for e in [e for e in events if e["e"] == "Lit" and e["kind"] == "helper"][:1]:
        ctx.cov["samples"].append({"literal": e, "verdict": verdicts[e["t"]][0]})
    for fam in ("Hist", "Auth"):
        for e in [e for e in events if e["e"] == fam][1:2]:
            ctx.cov["samples"].append({fam.lower(): e, "verdict": verdicts[e["t"]][0]})
    for e in [e for e in events if e["e"] == "Comp" and e["site"] == "dmarc-reject"][-1:]:
        ctx.cov["samples"].append({"computed": e, "verdict": verdicts[e["t"]][0]})
    ctx.assumptions += [
        "texts are compared as code point sequences; internal texts are the markers the harness plants "
        "(kaboom, dnsfail, ns.internal, f1eldsecret, ctx9wrap)",
        "unclassified errors (no Temporary method) may be answered 4yz or 5yz by the endpoint (DESIGN 2.5); "
        "the deadline rule (451 4.4.5) is its own case",
        "a literal whose Code is not a constant but whose EnhancedCode is, is evaluated for a 4yz and a 5yz code",
        "literals with non-constant Code and EnhancedCode are not decided statically: their code paths are driven "
        "(rows Comp: DMARC reject in the real pipeline, both reject directive parsers, fail_action override, milter "
        "reply code, smtpconn's conversion of a peer's reply incl. the 552->452 rewrite); the LMTP per-recipient "
        "status of target/smtp only copies the peer's reply and is not driven",
        "histories: one recipient failing over max_tries 2 and 3 attempts of the real queue with every sequence of "
        "{451 4.3.0, 550 5.1.1, 450 / 554 without enhanced code, unclassified, WithTemporary(true) around 550, "
        "un-annotated temporary and permanent failures (net.DNSError, WithTemporary(false))}; the target fails at "
        "AddRcpt, in the per-recipient status of a non-atomic body, at Start, Body or Commit (all sequences for "
        "max_tries 2; max_tries 3 at AddRcpt and a part elsewhere), with and without a restart of the queue on the "
        "same spool between the attempts; failure point and restart are data dimensions of the replay (the rule "
        "and the predicates do not depend on them); a report of class 4 is accepted only when the tries were "
        "exhausted on a failure that was still temporary",
        "AUTH replies: real submission endpoint over an in-memory connection, PLAIN and LOGIN, the provider fails "
        "with 11 error terms; demanded: class coherence, no internal text (incl. the words 'auth. provider'), ASCII; "
        "that HEAD answers every failed exchange, permanent ones included, 454 4.7.0 is not judged",
        "a reject directive whose operator-given basic and enhanced code disagree is the operator's choice and not "
        "in the input space; peers' replies fed to smtpconn are coherent or lack an enhanced code",
        "TLC 1.8.0, CommunityModules Json",
    ]


META = {
    "engine": "errorscheck",
    "level": "model_checking",
    "technique": "TLA+ spec Errors.tla (error terms over the real constructors to depth 4, documented conversions as "
                 "Rule, property as Prop) model-checked by TLC; every term replayed through the real wrapErr, "
                 "toSMTPErr, IsTemporary(OrUnspec) and a real queue attempt; go/ast scan of SMTPError literals and "
                 "helper pairs; all recorded rows evaluated by TLC against ErrorsTrace.tla",
    "text": "TLC visits every error term (22,620 at depth 4) and checks class(code) = class(enhanced) = (retried ? 4 : 5), "
            "annotation carried, no internal text, ASCII without SMTPUTF8 on the documented conversions; the same "
            "predicates are evaluated by TLC on what the real endpoint conversion, queue conversion, retry "
            "classification and one real queue attempt (failure report parsed) did for each term, and on every "
            "SMTPError literal / helper pair found by a go/ast scan of the tree.",
    "note": "Known deviations are explained per row by the smallest set of open deviations reproducing the recorded "
            "output; anything else is a VIOLATION. Trusted: TLC, harness, Go toolchain, go/ast.",
    "design_ref": "DESIGN.md section 5 C16",
}
