"""Known findings of one property, read from known_findings.d/<pid>.json (the
source the merged known_findings.json is generated from). Only entries with
status == "open" may suppress anything. VERIF_KNOWN_D points the checks at
another directory (used by the drills that flip an entry to "fixed: x")."""
import json
import os

import vlib


def entries(pid):
    d = os.environ.get("VERIF_KNOWN_D") or os.path.join(vlib.VERIF, "known_findings.d")
    p = os.path.join(d, pid + ".json")
    if os.path.exists(p):
        return [f for f in json.load(open(p)).get("findings", []) if f.get("property") == pid]
    return vlib.load_known(pid)


def open_entries(pid):
    return [f for f in entries(pid) if f.get("status", "open") == "open"]


def open_deviations(pid):
    """{deviation name: finding} of the open entries matched by a deviation."""
    return {f["match"]["deviation"]: f for f in open_entries(pid) if "deviation" in f.get("match", {})}


def open_sites(pid):
    return [f for f in open_entries(pid) if "site" in f.get("match", {})]
