"""Helpers for decision-table checks (BUILDING.md pattern B): rows out of TLC,
rows of the real code back into TLC.  Used by c07 (DMARC) and c13 (DANE).

Nothing here decides a property: rows are produced by TLC from the spec and the
verdict of every recorded row is computed by TLC from the spec's predicates.
"""
import json
import os
from concurrent.futures import ThreadPoolExecutor

import vlib


def rows_from(r, tag="ROW"):
    """Distinct rows printed by PrintT(<<tag, ToJson(..)>>), in print order, with ids 1.."""
    seen, out = set(), []
    for t, val in r["printed"]:
        if t != tag:
            continue
        k = json.dumps(val, sort_keys=True)
        if k in seen:
            continue
        seen.add(k)
        val["id"] = len(out) + 1
        out.append(val)
    return out


def validate_rows(ctx, module, cfg_text, events, name=None, batch=20000, par=4, timeout=1200,
                  heap=None):
    """events: list of Row events (dicts with t, seq, e, in, out) of the real code.
    Each batch is written to trace.ndjson and evaluated by spec/<module>.tla, which must
    print <<"VERDICTS", ToJson([n, accepted, verdicts])>> where verdicts lists the rows
    that are not plainly accepted as [t, drift, driftAt, viol, ...].
    Returns (verdicts: {t: record}, accepted: int)."""
    chunks = [events[i:i + batch] for i in range(0, len(events), batch)]
    dirs = []
    for bi, chunk in enumerate(chunks):
        d = ctx.sub("%s-b%d" % (name or module, bi))
        with open(os.path.join(d, "trace.ndjson"), "w") as f:
            for e in chunk:
                f.write(json.dumps(e) + "\n")
        dirs.append(d)

    def one(bi):
        return ctx.tlc(module, None, name=os.path.basename(dirs[bi]), workers=1, timeout=timeout,
                       cfg_text=cfg_text)

    with ThreadPoolExecutor(max_workers=max(1, par)) as ex:
        results = list(ex.map(one, range(len(chunks))))
    verdicts, accepted, states = {}, 0, 0
    for bi, r in enumerate(results):
        if not r["ok"]:
            raise vlib.Infra("row validation run failed: invariant=%s error=%s (see %s/tlc.out)" % (
                r["invariant"], r["error"], r["dir"]))
        got = None
        for tag, val in r["printed"]:
            if tag == "VERDICTS":
                got = val
        if got is None:
            raise vlib.Infra("no VERDICTS line from %s (see %s/tlc.out)" % (module, r["dir"]))
        if got["n"] != len(chunks[bi]):
            raise vlib.Infra("%s evaluated %d of %d rows (see %s)" % (module, got["n"], len(chunks[bi]), r["dir"]))
        if got["accepted"] + len(got["verdicts"]) != got["n"]:
            raise vlib.Infra("%s: accepted + listed != n (see %s)" % (module, r["dir"]))
        accepted += got["accepted"]
        states += r["distinct"]
        for rec in got["verdicts"]:
            if rec["t"] in verdicts:
                raise vlib.Infra("row %s has two verdicts" % rec["t"])
            verdicts[rec["t"]] = rec
    ctx.cov["trace_states"] = ctx.cov.get("trace_states", 0) + states
    ctx.cov["rows_evaluated_by_tlc"] = ctx.cov.get("rows_evaluated_by_tlc", 0) + len(events)
    return verdicts, accepted


def known_entries(pid):
    """Entries for pid: known_findings.d/<pid>.json if present (the source), else the merged file."""
    p = os.path.join(vlib.VERIF, "known_findings.d", pid + ".json")
    if os.path.exists(p):
        return [f for f in json.load(open(p)).get("findings", []) if f.get("property") == pid]
    return vlib.load_known(pid)


def open_entries(pid):
    return [f for f in known_entries(pid) if f.get("status", "open") == "open"]
